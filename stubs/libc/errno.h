#pragma once
#define EINVAL 22
#define EPERM 1
#define ENOMEM 12
