#pragma once
#include <stddef.h>
int printf(const char *fmt, ...);
