"""One-time: turn the reviewed draft (/tmp/p/draft.json) into spec/formats.json.
All numbers below were entered by hand from IEEE 1722-2016 / RFC 2435 / RFC 5371 /
acf-vss.md; the draft only supplies names.  Not used by any check."""
import json
d=json.load(open('/tmp/p/draft.json'))
HLEN={'CommonHeader':4,'Crf':20,'Rvf':32,'Udp':4,'Aaf':24,'Pcm':24,'AcfCommon':4,'Can':16,'CanBrief':8,
 'FlexRay':16,'Gpc':8,'Lin':12,'Most':20,'Ntscf':12,'Sensor':12,'SensorBrief':4,'Tscf':24,'Vss':12,
 'VssBrief':4,'Cvf':24,'H264':4,'Jpeg2000':8,'Mjpeg':8}
# expected layout: name -> (first header bit, width), by hand
L={}
COMMON=[('subtype',0,8),('sv',8,1),('version',9,3)]
STREAM=COMMON+[('mr',12,1),('tv',15,1),('sequence_num',16,8),('tu',31,1),('stream_id',32,64),('avtp_timestamp',96,32)]
ACF=[('acf_msg_type',0,7),('acf_msg_length',7,9)]
L['CommonHeader']=[('subtype',0,8),('h',8,1),('version',9,3)]
L['Crf']=COMMON+[('mr',12,1),('reserved',13,1),('fs',14,1),('tu',15,1),('sequence_num',16,8),('type',24,8),
  ('stream_id',32,64),('pull',96,3),('base_frequency',99,29),('crf_data_length',128,16),('timestamp_interval',144,16)]
L['Rvf']=COMMON+[('mr',12,1),('reserved',13,2),('tv',15,1),('sequence_num',16,8),('reserved_2',24,7),('tu',31,1),
  ('stream_id',32,64),('avtp_timestamp',96,32),('active_pixels',128,16),('total_lines',144,16),
  ('stream_data_length',160,16),('ap',176,1),('reserved_3',177,1),('f',178,1),('ef',179,1),('evt',180,4),
  ('pd',184,1),('i',185,1),('reserved_4',186,6),('reserved_5',192,8),('pixel_depth',200,4),('pixel_format',204,4),
  ('frame_rate',208,8),('colorspace',216,4),('num_lines',220,4),('reserved_6',224,8),('i_seq_num',232,8),
  ('line_number',240,16)]
L['Udp']=[('encapsulation_seq_no',0,32)]
L['Aaf']=STREAM+[('format',128,8),('aaf_format_specific_data_1',136,24),('stream_data_length',160,16),('afsd',176,3),
  ('sp',179,1),('evt',180,4),('aaf_format_specific_data_2',184,8)]
L['Pcm']=STREAM+[('format',128,8),('nsr',136,4),('channels_per_frame',142,10),('bit_depth',152,8),
  ('stream_data_length',160,16),('sp',179,1),('evt',180,4)]
L['AcfCommon']=ACF
CANB=ACF+[('pad',16,2),('mtv',18,1),('rtr',19,1),('eff',20,1),('brs',21,1),('fdf',22,1),('esi',23,1),('can_bus_id',27,5)]
L['Can']=CANB+[('message_timestamp',32,64),('can_identifier',99,29)]
L['CanBrief']=CANB+[('can_identifier',35,29)]
L['FlexRay']=ACF+[('pad',16,2),('mtv',18,1),('fr_bus_id',19,5),('reserved',24,2),('chan',26,2),('str',28,1),('syn',29,1),
  ('pre',30,1),('nfi',31,1),('message_timestamp',32,64),('fr_frame_id',96,11),('reserved_2',107,15),('cycle',122,6)]
L['Gpc']=ACF+[('gpc_msg_id',16,48)]
L['Lin']=ACF+[('pad',16,2),('mtv',18,1),('lin_bus_id',19,5),('lin_identifier',24,8),('message_timestamp',32,64)]
L['Most']=ACF+[('pad',16,2),('mtv',18,1),('most_net_id',19,5),('reserved',24,8),('message_timestamp',32,64),
  ('device_id',96,16),('fblock_id',112,8),('inst_id',120,8),('func_id',128,12),('op_type',140,4),('reserved_2',144,16)]
L['Ntscf']=COMMON+[('ntscf_data_length',13,11),('sequence_num',24,8),('stream_id',32,64)]
L['Sensor']=ACF+[('mtv',16,1),('num_sensor',17,7),('sz',24,2),('sensor_group',26,6),('message_timestamp',32,64)]
L['SensorBrief']=ACF+[('mtv',16,1),('num_sensor',17,7),('sz',24,2),('sensor_group',26,6)]
L['Tscf']=STREAM+[('stream_data_length',160,16)]
VSSB=ACF+[('pad',16,2),('mtv',18,1),('addr_mode',19,2),('vss_op',21,3),('vss_datatype',24,8)]
L['Vss']=VSSB+[('msg_timestamp',32,64)]
L['VssBrief']=VSSB
L['Cvf']=COMMON+[('mr',12,1),('reserved',13,2),('tv',15,1),('sequence_num',16,8),('reserved_2',24,7),('tu',31,1),
  ('stream_id',32,64),('avtp_timestamp',96,32),('format',128,8),('format_subtype',136,8),('reserved_3',144,16),
  ('stream_data_length',160,16),('reserved_4',176,2),('ptv',178,1),('m',179,1),('evt',180,4),('reserved_5',184,8)]
L['H264']=[('timestamp',0,32)]
L['Jpeg2000']=[('tp',0,2),('mhf',2,2),('mh_id',4,3),('t',7,1),('priority',8,8),('tile_number',16,16),('reserved',32,8),
  ('fragment_offset',40,24)]
L['Mjpeg']=[('type_specific',0,8),('fragment_offset',8,24),('type',32,8),('q',40,8),('width',48,8),('height',56,8)]
PREFIX={'CommonHeader':'AVTP_COMMON_HEADER_FIELD_','Udp':'AVTP_UDP_FIELD_','AcfCommon':'AVTP_ACF_FIELD_','H264':'AVTP_H264_FIELD_'}
INIT={ # init function -> {field: constant}
 'Crf':{'subtype':4,'sv':1},'Rvf':{'subtype':7,'sv':1},'Pcm':{'subtype':2,'sv':1},'Cvf':{'subtype':3,'sv':1,'format':2},
 'Tscf':{'subtype':5,'sv':1},'Ntscf':{'subtype':0x82,'sv':1},'FlexRay':{'acf_msg_type':0},'Can':{'acf_msg_type':1},
 'CanBrief':{'acf_msg_type':2},'Lin':{'acf_msg_type':3},'Most':{'acf_msg_type':4},'Gpc':{'acf_msg_type':5},
 'Sensor':{'acf_msg_type':8},'SensorBrief':{'acf_msg_type':9},'Vss':{'acf_msg_type':0x42},'VssBrief':{'acf_msg_type':0x43},
 'Udp':{},'H264':{},'Jpeg2000':{},'Mjpeg':{}}
LEGACY={'CommonHeader':{'get':'avtp_pdu_get','set':'avtp_pdu_set','val_bits':32},
 'Pcm':{'get':'avtp_aaf_pdu_get','set':'avtp_aaf_pdu_set','init':'avtp_aaf_pdu_init'},
 'Crf':{'get':'avtp_crf_pdu_get','set':'avtp_crf_pdu_set','init':'avtp_crf_pdu_init'},
 'Cvf':{'get':'avtp_cvf_pdu_get','set':'avtp_cvf_pdu_set','init':'avtp_cvf_pdu_init','init_extra_arg':'format_subtype'},
 'Rvf':{'get':'avtp_rvf_pdu_get','set':'avtp_rvf_pdu_set','init':'avtp_rvf_pdu_init'}}
EXC={('Rvf','f','setter'):'Avtp_Rvf_setF',('Vss','vss_op','getter'):'Avtp_Vss_GetOpCode',('Vss','vss_op','setter'):'Avtp_Vss_SetOpCode',
 ('Vss','vss_datatype','getter'):'Avtp_Vss_GetDatatype',('Vss','vss_datatype','setter'):'Avtp_Vss_SetDatatype'}
def camel(s): return ''.join(w.capitalize() for w in s.split('_'))
out=[]
for o in d:
    fmt=o['format']; lay=L[fmt]
    fields=[]
    names=[x['enum'] for x in o['fields']]
    pre=PREFIX.get(fmt) or __import__('os').path.commonprefix(names)
    byenum={x['enum']:x for x in o['fields']}
    for (n,bit,w) in lay:
        en=pre+n.upper()
        assert en in byenum,(fmt,en)
        g=EXC.get((fmt,n,'getter'),'Avtp_%s_Get%s'%(fmt,camel(n)))
        s=EXC.get((fmt,n,'setter'),'Avtp_%s_Set%s'%(fmt,camel(n)))
        has=not n.startswith('reserved') and not n.startswith('aaf_format_specific') and fmt!='VssBrief'
        fields.append({'name':n,'enum':en,'bit':bit,'width':w,'getter':g if has else None,'setter':s if has else None})
    assert len(fields)==len(o['fields']),(fmt,len(fields),len(o['fields']))
    e={'format':fmt,'source':o['source'],'header':o['header'],'type':o['type'],'len_macro':o['len_macro'],
       'header_len':HLEN[fmt],'enum_max':o['enum_max'],'get_field':o['get_field'],'set_field':o['set_field'],
       'init':({'fn':'Avtp_%s_Init'%fmt,'constants':INIT[fmt]} if fmt in INIT else None),
       'legacy':LEGACY.get(fmt),'fields':fields}
    out.append(e)
json.dump({'comment':'Wire layouts by hand from IEEE 1722-2016, RFC 2435, RFC 5371 and acf-vss.md; bit 0 = most significant bit of octet 0. Frozen oracle: not derived from the repository at check time.','formats':out},open('/verif/spec/formats.json','w'),indent=1)
print(len(out),sum(len(e['fields']) for e in out))
