#!/usr/bin/env python3
"""Developer tool (not a registered check): confirm a seeded change produced in
a scratch worktree and run the checks against it.

  tools/eval_mutant.py <worktree> <seed-name> <property> [--checks C01,C02,...]

1. in the worktree (change applied): build, run ctest (must pass), build+run
   the demo (must fail); with the patch reversed the demo must pass;
2. copy patch.diff / demo / notes into /verif/seeded/<seed-name>/;
3. apply the patch to /repo, run every check's quick command, undo the patch;
4. write meta.json with what was run and which checks raised a VIOLATION."""
import json
import os
import re
import shutil
import subprocess
import sys

VERIF = os.path.dirname(os.path.dirname(os.path.abspath(__file__)))
ALL = ['C%02d' % i for i in range(1, 21)]
REPO = os.environ.get('VERIF_REPO', '/repo')      # a scratch clone lets several evaluations run at once
import tempfile
EVDIR = tempfile.mkdtemp(prefix='o1722v-ev-eval-')


def sh(cmd, cwd=None, timeout=1800):
    p = subprocess.run(cmd, shell=True, cwd=cwd, stdout=subprocess.PIPE, stderr=subprocess.STDOUT,
                       universal_newlines=True, timeout=timeout)
    return p.returncode, p.stdout


def demo_cmd(wt):
    d = os.path.join(wt, '_mutant')
    if os.path.exists(os.path.join(d, 'demo.sh')):
        return 'sh _mutant/demo.sh'
    src = os.path.join(d, 'demo.c')
    txt = open(src).read()
    head = txt[:3000]
    head = re.sub(r'\\\s*\n\s*\*?\s*', ' ', head)      # join continuation lines of the comment
    m = re.search(r'((?:cc|gcc|clang)\s[^\n]*?&&\s*(?:\./)?[\w./-]+)', head)
    if not m:
        raise SystemExit('no build/run command found at the top of demo.c')
    return m.group(1).strip()


def main():
    wt, name, prop = sys.argv[1], sys.argv[2], sys.argv[3]
    checks = ALL
    if '--checks' in sys.argv:
        checks = sys.argv[sys.argv.index('--checks') + 1].split(',')
    meta = {'property': prop, 'seed': name, 'ran': []}
    patch = os.path.join(wt, '_mutant', 'patch.diff')
    if not os.path.exists(patch):
        raise SystemExit('no patch.diff in %s/_mutant' % wt)
    # 1. confirm in the worktree
    rc, out = sh('git diff --stat -- . ":(exclude)_mutant" ":(exclude)_b"', cwd=wt)
    applied = bool(out.strip())
    if not applied:
        rc, out = sh('git apply _mutant/patch.diff', cwd=wt)
        if rc:
            raise SystemExit('patch does not apply in worktree: ' + out)
    rc, out = sh('cmake -G Ninja -B _b -DUNIT_TESTING=ON >/dev/null && cmake --build _b 2>&1 | tail -3 && ctest --test-dir _b -j8 2>&1 | tail -3', cwd=wt)
    tests_ok = '100% tests passed' in out
    meta['ran'].append('worktree with change: cmake build + ctest -> %s' % ('192 tests pass' if tests_ok else 'FAIL'))
    dc = demo_cmd(wt)
    rc_with, out_with = sh(dc, cwd=wt)
    meta['ran'].append('demo with change (%s) -> exit %d' % (dc, rc_with))
    rc, out = sh('git apply -R _mutant/patch.diff', cwd=wt)
    if rc:
        raise SystemExit('cannot reverse patch: ' + out)
    rc_without, out_without = sh(dc, cwd=wt)
    meta['ran'].append('demo without change -> exit %d' % rc_without)
    sh('git apply _mutant/patch.diff', cwd=wt)
    meta['confirmed'] = bool(tests_ok and rc_with != 0 and rc_without == 0)
    meta['demo_output_with_change'] = out_with[-600:]
    dst = os.path.join(VERIF, 'seeded', name)
    os.makedirs(dst, exist_ok=True)
    for f in os.listdir(os.path.join(wt, '_mutant')):
        p = os.path.join(wt, '_mutant', f)
        if os.path.isfile(p) and os.path.getsize(p) < 200000 and not os.access(p, os.X_OK) or f.endswith('.sh'):
            shutil.copy(p, os.path.join(dst, f))
    if not meta['confirmed']:
        meta['note'] = 'NOT confirmed: tests_ok=%s demo_with=%d demo_without=%d' % (tests_ok, rc_with, rc_without)
        json.dump(meta, open(os.path.join(dst, 'meta.json'), 'w'), indent=1)
        print(json.dumps(meta, indent=1))
        return 1
    # 3. run the checks against /repo with the patch applied
    rc, out = sh('git -C %s status --porcelain --untracked-files=no' % REPO)
    if out.strip():
        raise SystemExit(REPO + ' has uncommitted changes; refusing to apply a seeded patch')
    rc, out = sh('git -C %s apply %s' % (REPO, patch))
    if rc:
        raise SystemExit('patch does not apply to /repo: ' + out)
    results = {}
    try:
        for c in checks:
            rc, out = sh('VERIF_EVIDENCE_DIR=%s VERIF_TIME_BUDGET=400 ./check %s --tier quick' % (EVDIR, c), cwd=VERIF, timeout=500)
            viol = [l for l in out.split('\n') if l.startswith('VIOLATION')]
            first = ''
            lines = out.split('\n')
            for i, l in enumerate(lines):
                if l.startswith('VIOLATION') and i > 0:
                    first = lines[i - 1][:400]
                    break
            und = [l for l in lines if l.startswith('UNDECIDED') or l.startswith('ANALYSIS-BROKEN')]
            results[c] = {'exit': rc, 'violations': len(viol), 'first': first, 'undecided': und[:2]}
    finally:
        sh('git -C %s checkout -- .' % REPO)
        shutil.rmtree(EVDIR, ignore_errors=True)
    meta['checks'] = results
    meta['caught_by'] = sorted(c for c, r in results.items() if r['exit'] == 1)
    meta['broken_by'] = sorted(c for c, r in results.items() if r['exit'] == 2)
    json.dump(meta, open(os.path.join(dst, 'meta.json'), 'w'), indent=1)
    print('seed %s (property %s): confirmed=%s caught_by=%s exit2=%s' % (name, prop, meta['confirmed'], meta['caught_by'], meta['broken_by']))
    for c in meta['caught_by']:
        print('  %s: %s' % (c, results[c]['first']))
    for c in meta['broken_by']:
        print('  %s: %s' % (c, results[c]['undecided']))
    return 0


if __name__ == '__main__':
    sys.exit(main())
