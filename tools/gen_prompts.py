#!/usr/bin/env python3
"""Developer tool: write the prompts handed to independent sub-agents that seed
defects (rounds 9+).  A prompt carries only the property text, the agent's own
worktree and a trigger category taken from the task brief - nothing from /verif.

  tools/gen_prompts.py <round> [<focus-offset>]   -> /tmp/prompts/Cxx_r<round>.txt
"""
import json
import os
import sys

VERIF = os.path.dirname(os.path.dirname(os.path.abspath(__file__)))
FOCI = [
    'two cooperating sites that each look fine alone (for example a table row and the macro, type or helper that is used '
    'with it; a producer and a consumer that must agree; a header and the source that implements it)',
    'a multi-step sequence of operations (the defect shows only after a particular earlier call, or on the second call, or '
    'when two operations are combined in a particular order)',
    'an unusual input (a particular length residue, a boundary value, a value with high bits set, a field that crosses a '
    'byte or quadlet boundary, non-zero surrounding bytes, a rarely used format or datatype, a rarely used mode)',
    'a particular build or platform situation that a user of the library can legitimately be in (another compiler or '
    'optimisation level, -DNDEBUG, a 32-bit or big-endian host, a misaligned buffer, C++ consumer, another include order)',
    'an error path or a rarely taken branch (what happens after a failure is detected, partial results, clean-up, '
    'return codes that callers rely on)',
]
T = """You are helping to evaluate a verification effort for the open-source C library COVESA/Open1722 (IEEE 1722 / AVTP PDU getters, setters and serializers). Your job: write ONE realistic, subtle code change to the repository (a "seeded defect") that BREAKS the property below, while the code still compiles and the project's existing unit-test suite still passes. Then write a small demonstration program (or test) that FAILS with your change and PASSES on the unchanged code.

PROPERTY {id}: {title}
{statement}
(Scope: {scope})

WORKING DIRECTORY: you have your own scratch git worktree of the repository at /tmp/wt/{id} (a detached checkout). Work ONLY inside /tmp/wt/{id}. Do NOT read or touch /repo, /verif or any other worktree under /tmp/wt. Do not use the network (there is none).

HOW TO BUILD AND TEST in your worktree:
  cd /tmp/wt/{id} && cmake -G Ninja -B _b -DUNIT_TESTING=ON >/dev/null && cmake --build _b >/dev/null && ctest --test-dir _b -j8
(all 7 ctest targets = 192 cmocka tests must pass, both before and after your change). Library sources are under src/avtp, public headers under include/avtp, example programs under examples/, tests under unit/. Read the code that the property is about before you decide what to change.

REQUIREMENTS FOR THE CHANGE
- It must violate the property above for at least one concrete input/usage, and you must be able to say exactly which.
- It must compile without errors (and without new warnings under the project's flags) and keep all existing tests green (do not edit the tests).
- Make it the kind of mistake a developer could plausibly make in a refactoring, optimisation, clean-up or feature commit. It must NOT be something any ordinary use would expose at once. For this task, aim in particular at: {focus}. If that category really does not fit this property, pick another way in which the defect needs something specific to manifest (a particular interleaving, a fault at a particular point, a multi-step sequence, an unusual input, two cooperating sites).
- Keep it small (typically 1-20 changed lines) and touch only library/example source or headers (not tests, not build files unless essential).
- Do not add comments that reveal it is a seeded defect; write it as the plausible commit it pretends to be.

DELIVERABLES - create the directory /tmp/wt/{id}/_mutant/ containing:
  1. patch.diff   - output of `git diff` for your change (source changes only; do not include _b/ or _mutant/).
  2. demo.c (or demo.sh + sources) - the demonstration. It should print enough to see the failure, and exit non-zero when the property is violated, zero otherwise. Put the exact build/run command, to be run from the worktree root, in a comment at its top on ONE line (e.g. `cc -I include _mutant/demo.c src/avtp/Utils.c src/avtp/acf/Can.c -o _mutant/demo && ./_mutant/demo`).
  3. notes.md     - 5-15 lines: what you changed and why it is plausible, the concrete input/sequence/situation that exposes it, what a user would observe, and confirmation that (a) the 192 tests pass with the change, (b) demo fails with the change, (c) demo passes without it (use `git stash` / `git stash pop` or `git apply -R` to check both ways).
Leave your change APPLIED in the worktree when you finish. Finish with a 3-line summary of the change in your final message.
"""


def main():
    rnd = sys.argv[1]
    off = int(sys.argv[2]) if len(sys.argv) > 2 else 0
    os.makedirs('/tmp/prompts', exist_ok=True)
    for i, l in enumerate(open(os.path.join(VERIF, 'properties.jsonl'))):
        p = json.loads(l)
        txt = T.format(id=p['id'], title=p['title'], statement=p['statement'], scope=p['quantifier']['text'],
                       focus=FOCI[(i + off) % len(FOCI)])
        open('/tmp/prompts/%s_r%s.txt' % (p['id'], rnd), 'w').write(txt)
    print('wrote 20 prompts for round', rnd)


if __name__ == '__main__':
    main()
