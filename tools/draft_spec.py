"""One-time helper: draft spec/formats.json from today's tree for manual review.
The committed spec is the reviewed, frozen artefact; this tool is not used by checks."""
import re,glob,json,sys,os
sys.path.insert(0,'/verif')
from verif import build, irparse
p,u=build.build_library_ir('le')
m=irparse.parse_module(open(p).read(),p)
fns=set(m.functions)
out=[]
def camel(s):
    return ''.join(w.capitalize() for w in s.lower().split('_'))
for f in sorted(glob.glob('/repo/src/avtp/**/*.c',recursive=True)):
    s=open(f).read()
    mm=re.search(r'static const Avtp_FieldDescriptor_t (\w+)\[(\w+)\]\s*=\s*\{(.*?)\};',s,re.S)
    if not mm: continue
    rows=re.findall(r'\[(\w+)\]\s*=\s*\{\s*\.quadlet\s*=\s*(\d+),\s*\.offset\s*=\s*(\d+),\s*\.bits\s*=\s*(\d+)\s*\}',mm.group(3))
    gf=re.search(r'uint64_t (Avtp_(\w+)_GetField)\(',s)
    fmt=gf.group(2)
    hdr=re.search(r'#include "(avtp/[^"]*%s\.h)"'%os.path.basename(f)[:-2],s).group(1)
    h=open('/repo/include/'+hdr).read()
    ty=re.search(r'\}\s*(Avtp_%s_t);'%fmt,h).group(1)
    lm=re.search(r'uint8_t header\[(\w+)\];',h).group(1)
    fields=[]
    for (en,q,o,b) in rows:
        pre=os.path.commonprefix([r[0] for r in rows])
        short=en[len(pre):]
        g='Avtp_%s_Get%s'%(fmt,camel(short)); st='Avtp_%s_Set%s'%(fmt,camel(short))
        fields.append({'enum':en,'name':short.lower(),'bit':int(q)*32+int(o),'width':int(b),
                       'getter':g if g in fns else None,'setter':st if st in fns else None})
    used=set(x['getter'] for x in fields)|set(x['setter'] for x in fields)
    rest=sorted(n for n in fns if n.startswith('Avtp_%s_'%fmt) and n not in used)
    out.append({'format':fmt,'source':f[6:],'header':hdr,'type':ty,'len_macro':lm,'enum_max':mm.group(2),
                'get_field':'Avtp_%s_GetField'%fmt,'set_field':'Avtp_%s_SetField'%fmt,'fields':fields,'_other_functions':rest})
json.dump(out,open('/tmp/p/draft.json','w'),indent=1)
for o in out:
    print(o['format'],o['header'],o['type'],o['len_macro'],o['enum_max'])
    for x in o['fields']:
        if not x['getter'] or not x['setter']: print('   MISSING',x)
    print('   other:',o['_other_functions'])
