#!/usr/bin/env python3
"""setup_cmd self-test of the analysis engine on /verif/fixtures (hand-computed
expectations).  Exit 0 only if every expectation holds on both endiannesses."""
import os
import sys

HERE = os.path.dirname(os.path.dirname(os.path.abspath(__file__)))
sys.path.insert(0, HERE)
from verif import build, irparse, bpa, bits as B  # noqa: E402
from verif.bpa import Ptr, Region  # noqa: E402

FAIL = []


def expect(name, cond):
    if not cond:
        FAIL.append(name)
        print('SELFTEST FAIL:', name)


def A(n, k):
    return ('A', n, k)


def I(r, o, b):
    return ('I', r, o, b)


def run(mod, fn, args, regions):
    ws = bpa.analyse(mod, fn, lambda: (args(), regions()), max_worlds=8)
    return ws


def main():
    d = build.scratch()
    src = os.path.join(HERE, 'fixtures', 'engine_selftest.c')
    for tg in ('le', 'be'):
        bcs = build.compile_units([src], os.path.join(d, tg), target=tg, includes=[])
        ll = os.path.join(d, 'st_%s.ll' % tg)
        build.link_ll(bcs, ll)
        mod = irparse.parse_module(open(ll).read(), ll)
        expect(tg + ':endianness', mod.big_endian == (tg == 'be'))
        regs = lambda: {'p': Region('p', 'sym', 8), 's': Region('s', 'sym', 3)}
        w = run(mod, 'st_bswap', lambda: [bpa.sym_arg('x', 32)], regs)[0]
        exp = tuple(A('x', 8 * (3 - i // 8) + i % 8) for i in range(32))
        expect(tg + ':bswap', w.status == 'ok' and w.ret == exp)
        w = run(mod, 'st_load', lambda: [Ptr('p', 0)], regs)[0]
        expect(tg + ':load', w.ret == tuple(I('p', 3, b) for b in range(8)) and sorted(w.regions['p'].reads) == [3])
        for fn in ('st_rmw', 'st_rmw_xor'):
            w = run(mod, fn, lambda: [Ptr('p', 0), bpa.sym_arg('v', 8)], regs)[0]
            m = w.regions['p'].mem.get(1)
            exp = tuple([A('v', b) for b in range(4)] + [I('p', 1, b) for b in range(4, 8)])
            expect(tg + ':' + fn, w.status == 'ok' and m == exp and sorted(w.regions['p'].writes) == [1])
        w = run(mod, 'st_loop_be', lambda: [Ptr('p', 0)], regs)[0]
        exp = tuple(I('p', 3 - i // 8, i % 8) for i in range(32))
        expect(tg + ':loop', w.status == 'ok' and w.ret == exp)
        w = run(mod, 'st_typed_load', lambda: [Ptr('p', 0)], regs)[0]
        if tg == 'le':
            exp = tuple(I('p', i // 8, i % 8) for i in range(32))
        else:
            exp = tuple(I('p', 3 - i // 8, i % 8) for i in range(32))
        expect(tg + ':typed-load', w.ret == exp)
        w = run(mod, 'st_copy', lambda: [Ptr('p', 0), Ptr('s', 0)], regs)[0]
        mem = w.regions['p'].mem
        expect(tg + ':copy', all(mem[2 + i] == tuple(I('s', i, b) for b in range(8)) for i in range(3))
               and mem[5] == 0 and mem[6] == 0 and sorted(w.regions['p'].writes) == [2, 3, 4, 5, 6])
        w1 = run(mod, 'st_cmp', lambda: [bpa.sym_arg('id', 32)], regs)
        w2 = run(mod, 'st_cmp2', lambda: [bpa.sym_arg('id', 32)], regs)
        # both are "any of bits 11..31": same canonical atom, possibly via a fork on it
        anyt = B.make_any([A('id', k) for k in range(11, 32)])
        def outcome(ws):
            out = set()
            for w in ws:
                if w.status != 'ok':
                    return None
                if w.decisions:
                    out.add((w.decisions[0][0] == anyt, w.decisions[0][1], w.ret))
                else:
                    out.add(('direct', w.ret == B.v_zext((anyt,), 1, 32) if not isinstance(w.ret, int) else False))
            return out
        expect(tg + ':cmp-canonical', outcome(w1) is not None and outcome(w1) == outcome(w2))
        ws = run(mod, 'st_guard', lambda: [Ptr('p', 0), bpa.sym_arg('f', 32)], regs)
        expect(tg + ':guard-forks', len(ws) == 2 and all(w.status == 'ok' for w in ws))
        ws = run(mod, 'st_static', lambda: [bpa.sym_arg('v', 8)], regs)
        g = [n for n in ws[0].regions if n.startswith('@')]
        expect(tg + ':static', ws[0].status == 'ok' and g and ws[0].regions[g[0]].writes == {0}
               and ws[0].ret == tuple(I(g[0], 1, b) for b in range(8)))
    build.cleanup()
    if FAIL:
        print('engine self-test failed: %d expectation(s)' % len(FAIL))
        return 1
    print('engine self-test passed (le, be)')
    return 0


if __name__ == '__main__':
    sys.exit(main())
