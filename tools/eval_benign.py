#!/usr/bin/env python3
"""Developer tool (not a registered check): run every check against a
behaviour-preserving refactoring produced in a scratch worktree.

  tools/eval_benign.py <worktree> <name>

The worktree must contain _benign/patch.diff (applied there).  The 192 tests
must pass in the worktree; then the patch is applied to /repo, every check's
quick command is run, and the patch is undone.  Any exit code other than 0 is
printed with the first diagnostic lines."""
import os
import shutil
import subprocess
import sys

VERIF = os.path.dirname(os.path.dirname(os.path.abspath(__file__)))
ALL = ['C%02d' % i for i in range(1, 21)]


def sh(cmd, cwd=None, timeout=1800):
    p = subprocess.run(cmd, shell=True, cwd=cwd, stdout=subprocess.PIPE, stderr=subprocess.STDOUT,
                       universal_newlines=True, timeout=timeout)
    return p.returncode, p.stdout


def main():
    wt, name = sys.argv[1], sys.argv[2]
    patch = os.path.join(wt, '_benign', 'patch.diff')
    if not os.path.exists(patch):
        raise SystemExit('no _benign/patch.diff in ' + wt)
    rc, out = sh('cmake -G Ninja -B _b -DUNIT_TESTING=ON >/dev/null && cmake --build _b 2>&1 | tail -3 && ctest --test-dir _b -j8 2>&1 | tail -3', cwd=wt)
    if '100% tests passed' not in out:
        print('%s: tests do NOT pass in the worktree:\n%s' % (name, out[-500:]))
        return 1
    rc, out = sh('git -C /repo status --porcelain --untracked-files=no')
    if out.strip():
        raise SystemExit('/repo has uncommitted changes')
    rc, out = sh('git -C /repo apply %s' % patch)
    if rc:
        raise SystemExit('patch does not apply to /repo: ' + out)
    bad = []
    try:
        for c in ALL:
            rc, out = sh('VERIF_EVIDENCE_DIR=/tmp/o1722v-ev-eval VERIF_TIME_BUDGET=400 ./check %s --tier quick' % c, cwd=VERIF, timeout=500)
            if rc != 0:
                lines = [l for l in out.split('\n') if l and not l.startswith('KNOWN-FINDING') and 'conda' not in l]
                first = [l for l in lines if not l.startswith('VIOLATION')][:3]
                bad.append((c, rc, first))
    finally:
        sh('git -C /repo checkout -- .')
        sh('git -C /repo clean -fdq -- src include examples')
    if not bad:
        dst = os.path.join(VERIF, 'selftest', 'benign', name + '.diff')
        shutil.copy(patch, dst)
        print('%s: all 20 checks silent -> kept as %s' % (name, os.path.relpath(dst, VERIF)))
        return 0
    print('%s: %d check(s) not silent' % (name, len(bad)))
    for c, rc, first in bad:
        print('  %s exit %d' % (c, rc))
        for l in first:
            print('     ' + l[:400])
    return 1


if __name__ == '__main__':
    sys.exit(main())
