#!/usr/bin/env python3
"""Writes /verif/MANIFEST.json from the table below (kept in one place so the
manifest stays valid while checks are added)."""
import json
import os

HERE = os.path.dirname(os.path.dirname(os.path.abspath(__file__)))
TB = ('trusted: clang-14 as a front end (IR generation and constant folding), llvm-link-14, the IR parser and the '
      'bit-provenance interpreter in /verif/verif (self-tested on /verif/fixtures by setup_cmd), and the hand-transcribed '
      'layouts in /verif/spec; nothing from /repo is executed')

CHECKS = {
    'C01': dict(cat='proof', tech='abstract interpretation (bit-provenance domain) of every reader over LLVM IR',
                text='Every by-identifier and dedicated reader of every field of the 23 formats is interpreted over a fully '
                     'symbolic header; the closed-form result must be exactly the field bits of the frozen wire-layout spec, '
                     'zero-extended to a return type at least as wide as the field, with an empty write set. The generic walker '
                     'is swept over synthetic descriptors (quick: boundary grid, thorough: every quadlet/offset/width). This is '
                     'a proof for all buffer contents because no input is ever chosen.', ref='4.1'),
    'C02': dict(cat='proof', tech='abstract interpretation (bit-provenance domain) of every writer over LLVM IR',
                text='Every writer is interpreted with symbolic header and symbolic value; the final memory image must be the '
                     'value bits msb-first inside the spec range and the entry bits everywhere else (frame condition over the whole '
                     'region), and the value parameter must be at least as wide as the field. Generic walker swept as for C01.',
                ref='4.2'),
    'C03': dict(cat='proof', tech='read/write extents from abstract interpretation + compiler-folded layout facts',
                text='Read and write sets of all 864 accessor/initialiser entry points are measured on a region declared exactly '
                     'sizeof(header type) long; sizeof, header array bound, offsetof(payload) and the length macro are folded by '
                     'the compiler and compared with the wire-format header length; the payload accessor must return header+len.',
                ref='4.3'),
    'C04': dict(cat='proof', tech='abstract interpretation of initialisers on symbolic memory',
                text='All 24 initialisers (current and legacy) run on a fully symbolic header plus symbolic trailing memory; the '
                     'resulting image must be the constant image of the spec (no entry bit survives, hence independence of prior '
                     'content and idempotence) and nothing after the header may be written.', ref='4.4'),
    'C11': dict(cat='proof', tech='abstract interpretation with symbolic identifier + interval refutation of path conditions',
                text='Null-PDU world of all accessors and initialisers (no access, return 0); the field identifier stays symbolic '
                     'for every by-identifier entry point and every world with an effect must contradict identifier >= MAX, else a '
                     'concrete identifier is exhibited; legacy entry points must return -EINVAL without any store.', ref='4.11'),

    'C05': dict(cat='proof', tech='abstract interpretation of operation scripts + induction over measured lemmas',
                text='Hypotheses H1-H5 of the induction in DESIGN.md 4.5 (set/init/get lemmas for every entry point, pairwise disjoint '
                     'measured write footprints, effects confined to the arguments) are re-established on every run; in addition every '
                     'ordered pair of writes per format (commute, overwrite, read-after-write, non-interference) and whole '
                     'init + write-all + rewrite + read-all histories in forward, reverse and seeded orders through mixed generic / '
                     'dedicated / legacy entry points are interpreted exactly over symbolic values and prior content.', ref='4.5'),
    'C06': dict(cat='proof', tech='abstract interpretation of the builders for every payload length',
                text='Both ACF-CAN builders are interpreted for every payload length 0..64 (thorough: every length the 9-bit length '
                     'field can express) and both variants over symbolic identifier, payload, header and trailing memory on an '
                     'exact-extent region; the image must equal the reference message; read-back, split sequence and finalise-alone '
                     'are interpreted as scripts.', ref='4.6'),
    'C09': dict(cat='proof', tech='abstract interpretation of Avtp_Vss_Pad for every length',
                text='Avtp_Vss_Pad is interpreted for every message length 12..2044 on an exact-extent symbolic region; exactly the pad '
                     'octets are zeroed, length/pad fields set, every other bit keeps its entry value; the dedicated length accessors '
                     'must carry all 9 bits.', ref='4.9'),
    'C12': dict(cat='proof', tech='abstract interpretation: equality of closed forms legacy vs current + compiler-folded aliases',
                text='For the five legacy formats and all 84 fields the value stored by the deprecated reader, the image left by the '
                     'deprecated writer and initialiser are compared bit for bit with the current API over symbolic buffers/values; '
                     '31 alias macros and 19 layout facts of the packed legacy structs are folded by the compiler and compared.', ref='4.12'),
    'C13': dict(cat='proof', tech='abstract interpretation of the 15 helpers on LE and BE targets',
                text='Closed form of every byte-order helper over a symbolic value on a little- and a big-endian target: swap is byte '
                     'reversal and an involution, the memory image of CpuToBe/CpuToLe through the datalayout is big/little-endian, '
                     'to-host inverts from-host, and the two preprocessor branches are mirror images.', ref='4.13'),
    'C14': dict(cat='proof', tech='all C01/C02/C04/C06/C09 obligations re-evaluated on big-endian IR',
                text='Every obligation of C01, C02, C04, C06, C09 (and the VSS codec checks where registered) is discharged again on IR '
                     'compiled for powerpc64 and - for C01/C02/C04/C06/C09 in the quick tier, for all in the thorough tier - 32-bit mips, plus sparc (strict alignment) for the VSS codec; specs are expressed in wire octets and host values, so holding '
                     'on both byte orders is the property.', ref='4.14',
                note=TB + '; powerpc64/mips/sparc IR is taken as representative of big-endian hosts; libc headers are replaced by declarations in stubs/libc'),
    'C17': dict(cat='proof', tech='pairwise equality of measured closed forms across overlay families',
                text='For each overlay family (common header, ACF common header, stream header, AAF~PCM, full~brief variants) and every '
                     'pair of views the measured read result and write effect of the shared field must be identical.', ref='4.17'),

    'C15': dict(cat='proof', tech='pointer-provenance/alignment dataflow over clang -O0 IR of every library unit',
                text='Every load, store and mem-intrinsic operand of the library (about 2800 sites) is checked: the alignment the access '
                     'carries must not exceed what the declared type of the pointer\'s origin guarantees (uint8_t* and header types: 1). '
                     'Pointers may not escape (argument, stored, returned) under a stricter type either; an access behind a run-time alignment test is accepted. With no over-aligned access into wire memory, results cannot depend on placement or optimisation level (value-level placement dependence is covered by the engine checks, which fork on symbolic address bits). The 64 typed '
                     'accesses of the VSS codec are genuine and listed as known findings, site by site; any new site is a violation.',
                ref='4.15', engine='rules',
                note='trusted: clang-14 -O0 IR generation (access alignments are those the front end derives from the C types), irparse.py, '
                     'rules.py; the rule is structural: it proves absence of over-aligned accesses, from which placement independence follows'),
    'C16': dict(cat='proof', tech='IR rules: constant globals, callee whitelist, write-provenance dataflow, empty reader write sets',
                text='Over the IR of exactly the units CMakeLists.txt links into libopen1722 and libopen1722custom: every static-storage '
                     'object is constant, every external callee is memcpy/memset/memmove, every write targets memory traced to an argument '
                     'or a local, every reader has an empty write set; hence calls on distinct PDUs (or readers on a shared PDU) cannot race. '
                     'A positive-control fixture must be flagged on every run.', ref='4.16', engine='rules',
                note='trusted: clang-14 IR generation, irparse.py, rules.py, bpa.py for reader write sets; the argument from "no shared '
                     'mutable state" to "race-free in every schedule" is the standard one and is stated in DESIGN.md 4.16'),
    'C20': dict(cat='proof', tech='compile-time witnesses: all ordered header pairs x {C99, gnu17, C++17} with asserted facts',
                text='Each of the 26 public headers compiles alone in C99, gnu17 and C++17 and yields its facts (about 770 enumerator/macro values of the project itself, '
                     'sizes, payload offsets, folded by the compiler); all 650 ordered pairs in the three dialects must compile with '
                     '-Werror=macro-redefined -Werror=visibility and every fact of both headers asserted; all-header units in several orders may only fail '
                     'with pairwise conflicts. The Aaf.h/Pcm.h name clash is genuine and listed as known findings.', ref='4.20',
                engine='witness',
                note='trusted: clang-14 front end in -std=c99 and -std=c++17 modes; subsets larger than two are covered by the pairwise '
                     'argument (a name clash needs two declarations) plus the all-header units'),

    'C07': dict(cat='proof', tech='abstract interpretation of the VSS encoder per shape (bounded lengths, symbolic contents)',
                text='SetVssPath + SetVssData are interpreted for both address modes, all 24 datatypes and an enumerated set of path lengths '
                     'and element counts (quick 458 shapes, thorough about 4800 incl. 65535-octet strings, 1024-element arrays, 2026-octet '
                     'paths) on exact-extent message regions whose header pins only addr_mode/vss_datatype; path bytes, static id, values and '
                     'all other memory are symbolic. The image must equal the reference encoder of acf-vss.md and nothing else may change; '
                     'reserved modes and datatype codes must write nothing. Proof per shape for all contents; bounded in the two lengths.',
                ref='4.7', note=TB + '; the reference encoder (verif/vss.py) is my reading of acf-vss.md; uniformity in the lengths is not proved'),
    'C08': dict(cat='proof', tech='abstract interpretation of the VSS decoder per shape (bounded lengths, symbolic contents)',
                text='CalcVssPathLength, GetVssPath and GetVssData are interpreted on exact-extent messages with control octets from the '
                     'reference encoder and symbolic payload; results must equal the reference decoder bit for bit (floats are moved as bit '
                     'patterns), reads must stay inside the message, writes inside the reported length, and a null destination must leave '
                     'everything but data_length untouched for all 13 variable-length types.', ref='4.8',
                note=TB + '; bounded in path length and element count as C07'),
    'C10': dict(cat='proof', tech='abstract interpretation of pack/count/unpack per list shape',
                text='Serialize, count and deserialize are interpreted for lists of 0..4 strings (lengths 0..7), 300 strings (thorough: '
                     '1000, 2000 strings, one 65533-octet string) on exact-extent regions with symbolic bytes; unpack with requested counts '
                     'k-1, k, k+2, with and without destinations; results must equal the reference packing and no access may leave the '
                     'recorded length or the destinations.', ref='4.10', note=TB + '; bounded in list length and string lengths'),

    'C18': dict(cat='other', tech='wire-taint dataflow over SSA IR of the six listener programs (necessary conditions only)',
                text='PARTIAL. The property as a whole (no memory error, bounded time and liveness for every datagram sequence in programs '
                     'doing socket and timer I/O) is out of reach of a sound static argument here. Decided clauses K1-K10: receive length <= '
                     'buffer size; constant-length copies stay inside their objects; a value read from the datagram (library getter on the '
                     'receive buffer, direct load, decoder out-parameter) is dominated by a bounding comparison before it is used as copy '
                     'length, object offset or VLA size; wire-stepped loops have a non-zero guard; no %s on receive-buffer bytes and no '
                     'decoder result object with unset members; no access to an object at a point dominated by its free(); indexes and lengths derived from the receive count, and offsets fixed by control flow alone (accumulators over the receive loop), stay inside their objects; a global pointer to a heap object is updated by the function that frees the object. Breaking any clause breaks the property for some datagram; holding them does '
                     'not establish the property. The 11 flows that violate the clauses today are listed as known findings (each class '
                     'replayed under ASan, replays/c18); any new flow is a violation.', ref='4.18', engine='taint',
                note='trusted: clang-14 -O0 + opt-14 mem2reg, irparse.py, taint.py (field-insensitive objects, context-insensitive '
                     'summaries, dominance-based guard recognition); library functions are recognised by name (Avtp_*/avtp_*)'),
    'C19': dict(cat='proof', tech='abstract interpretation of talker builder + listener receive path with modelled I/O',
                text='The talker\'s real main() (sending loop, packet building, length bookkeeping) and new_packet of the listener are interpreted by '
                     'the bit-provenance engine over the IR of the example programs linked with the library; identifier (11/29 bits), RTR, '
                     'BRS/ESI/FDF and all data octets stay symbolic, frame length (0..8 / 0..64), TSCF/NTSCF, UDP/raw and 1-3 frames per '
                     'packet are enumerated, plus bulk packets of up to 61 classic / 18 FD frames with fixed flags (quick about 270 scenarios, thorough about 620). The frames handed to write() must equal the input frames '
                     'bit for bit and the control header must announce exactly the ACF octets that follow.', ref='4.19',
                note=TB + '; recv/write/clock_gettime/stdio are modelled in verif/checks/c19.py; argp_parse and the socket helpers are replaced by models; the listener main()/poll '
                     'loop is not analysed; input frames are assumed well-formed (standard frame: no identifier bit above 10)'),
}

IR_CHECKS = ('C01', 'C02', 'C03', 'C04', 'C05', 'C06', 'C07', 'C08', 'C09', 'C10', 'C11', 'C12', 'C15', 'C16', 'C17')
CONFIGS = (' Build configurations: x86-64 (default flags of CMakeLists.txt), the -DNDEBUG configuration whenever its IR differs '
           'from the default one, and i386 with the front end in -O1 mode (lifetime markers, __OPTIMIZE__, llvm.is.constant), '
           '__GNUC__ = 12 and unsigned plain char; the VSS codec checks C07/C08/C10 also on armv6m (little-endian, no unaligned access). The functions analysed and their callees are also held '
           'against what the public prototypes promise an optimising caller (const/pure/nonnull/aligned attributes vs. the '
           'bodies, macros shadowing functions, argument-evaluation-order hazards: DESIGN.md 4.21).')

PENDING = ['C05', 'C06', 'C07', 'C08', 'C09', 'C10', 'C12', 'C13', 'C14', 'C15', 'C16', 'C17', 'C18', 'C19', 'C20']


def main():
    checks = []
    for pid in sorted(CHECKS):
        c = CHECKS[pid]
        checks.append({
            'property_id': pid,
            'quick_cmd': './check %s --tier quick' % pid,
            'thorough_cmd': './check %s --tier thorough' % pid,
            'evidence_file': 'evidence/%s.json' % pid,
            'replay_cmd_template': './check %s --replay {path}' % pid,
            'engine': c.get('engine', 'bpa'),
            'level_claimed': {'category': c['cat'], 'text': c['text'] + (CONFIGS if pid in IR_CHECKS else ''),
                              'design_ref': 'DESIGN.md section ' + c['ref']},
            'level_note': c.get('note', TB),
            'technique': c['tech'],
        })
    na = [{'property_id': p, 'reason': 'check not registered yet (work in progress; DESIGN.md section 4)'}
          for p in PENDING if p not in CHECKS]
    na += [{'property_id': k, 'reason': v} for k, v in NOT_APPLICABLE.items()]
    m = {
        'version': 1,
        'setup_cmd': 'python3 -m compileall -q verif && python3 tools/selfcheck.py',
        'hooks': {
            'guard': 'OPEN1722_VERIF',
            'enable': 'no hook is needed: every check reads /repo through the compiler front end (clang-14 -emit-llvm / '
                      '-fsyntax-only) and never runs it',
            'baseline_off_cmd': 'cmake --build /repo/_build && ctest --test-dir /repo/_build -j8 --timeout 900',
            'source_commits': [],
            'add_only': True,
        },
        'engines': [
            {'name': 'bpa', 'path': 'verif/bpa.py', 'serves_properties': sorted(p for p in CHECKS if CHECKS[p].get('engine', 'bpa') == 'bpa'),
             'kind_free_text': 'abstract interpreter over LLVM-14 IR with a per-bit provenance domain (bits.py); '
                               'IR built from /repo by clang-14 on every run'},
            {'name': 'rules', 'path': 'verif/rules.py', 'serves_properties': sorted(p for p in CHECKS if CHECKS[p].get('engine') == 'rules'),
             'kind_free_text': 'structural dataflow rules (pointer provenance, alignment, effects, taint) over clang -O0 IR'},
            {'name': 'taint', 'path': 'verif/taint.py', 'serves_properties': sorted(p for p in CHECKS if CHECKS[p].get('engine') == 'taint'),
             'kind_free_text': 'wire-taint dataflow with dominance-based sanitiser recognition over mem2reg IR of the example programs'},
            {'name': 'witness', 'path': 'verif/checks/c20.py', 'serves_properties': sorted(p for p in CHECKS if CHECKS[p].get('engine') == 'witness'),
             'kind_free_text': 'generated translation units whose (non-)compilation with static assertions is the verdict'},
        ],
        'checks': checks,
        'not_applicable': na,
        'notes': 'Static analysis only. Exit 0 = all obligations held (known findings printed as KNOWN-FINDING); exit 1 = '
                 'VIOLATION not listed in KNOWN_FINDINGS.txt; exit 2 = analysis broken (tree does not build, anchor vanished, '
                 'undecided obligation).',
    }
    with open(os.path.join(HERE, 'MANIFEST.json'), 'w') as f:
        json.dump(m, f, indent=1)
    print('wrote MANIFEST.json with %d checks, %d not_applicable' % (len(checks), len(na)))


NOT_APPLICABLE = {}

if __name__ == '__main__':
    main()
