#!/usr/bin/env python3
"""Writes /verif/MANIFEST.json from the table below (kept in one place so the
manifest stays valid while checks are added)."""
import json
import os

HERE = os.path.dirname(os.path.dirname(os.path.abspath(__file__)))
TB = ('trusted: clang-14 as a front end (IR generation and constant folding), llvm-link-14, the IR parser and the '
      'bit-provenance interpreter in /verif/verif (self-tested on /verif/fixtures by setup_cmd), and the hand-transcribed '
      'layouts in /verif/spec; nothing from /repo is executed')

CHECKS = {
    'C01': dict(cat='proof', tech='abstract interpretation (bit-provenance domain) of every reader over LLVM IR',
                text='Every by-identifier and dedicated reader of every field of the 23 formats is interpreted over a fully '
                     'symbolic header; the closed-form result must be exactly the field bits of the frozen wire-layout spec, '
                     'zero-extended to a return type at least as wide as the field, with an empty write set. The generic walker '
                     'is swept over synthetic descriptors (quick: boundary grid, thorough: every quadlet/offset/width). This is '
                     'a proof for all buffer contents because no input is ever chosen.', ref='4.1'),
    'C02': dict(cat='proof', tech='abstract interpretation (bit-provenance domain) of every writer over LLVM IR',
                text='Every writer is interpreted with symbolic header and symbolic value; the final memory image must be the '
                     'value bits msb-first inside the spec range and the entry bits everywhere else (frame condition over the whole '
                     'region), and the value parameter must be at least as wide as the field. Generic walker swept as for C01.',
                ref='4.2'),
    'C03': dict(cat='proof', tech='read/write extents from abstract interpretation + compiler-folded layout facts',
                text='Read and write sets of all 864 accessor/initialiser entry points are measured on a region declared exactly '
                     'sizeof(header type) long; sizeof, header array bound, offsetof(payload) and the length macro are folded by '
                     'the compiler and compared with the wire-format header length; the payload accessor must return header+len.',
                ref='4.3'),
    'C04': dict(cat='proof', tech='abstract interpretation of initialisers on symbolic memory',
                text='All 24 initialisers (current and legacy) run on a fully symbolic header plus symbolic trailing memory; the '
                     'resulting image must be the constant image of the spec (no entry bit survives, hence independence of prior '
                     'content and idempotence) and nothing after the header may be written.', ref='4.4'),
    'C11': dict(cat='proof', tech='abstract interpretation with symbolic identifier + interval refutation of path conditions',
                text='Null-PDU world of all accessors and initialisers (no access, return 0); the field identifier stays symbolic '
                     'for every by-identifier entry point and every world with an effect must contradict identifier >= MAX, else a '
                     'concrete identifier is exhibited; legacy entry points must return -EINVAL without any store.', ref='4.11'),
}

PENDING = ['C05', 'C06', 'C07', 'C08', 'C09', 'C10', 'C12', 'C13', 'C14', 'C15', 'C16', 'C17', 'C18', 'C19', 'C20']


def main():
    checks = []
    for pid in sorted(CHECKS):
        c = CHECKS[pid]
        checks.append({
            'property_id': pid,
            'quick_cmd': './check %s --tier quick' % pid,
            'thorough_cmd': './check %s --tier thorough' % pid,
            'evidence_file': 'evidence/%s.json' % pid,
            'replay_cmd_template': './check %s --replay {path}' % pid,
            'engine': c.get('engine', 'bpa'),
            'level_claimed': {'category': c['cat'], 'text': c['text'], 'design_ref': 'DESIGN.md section ' + c['ref']},
            'level_note': c.get('note', TB),
            'technique': c['tech'],
        })
    na = [{'property_id': p, 'reason': 'check not registered yet (work in progress; DESIGN.md section 4)'}
          for p in PENDING if p not in CHECKS]
    na += [{'property_id': k, 'reason': v} for k, v in NOT_APPLICABLE.items()]
    m = {
        'version': 1,
        'setup_cmd': 'python3 -m compileall -q verif && python3 tools/selfcheck.py',
        'hooks': {
            'guard': 'OPEN1722_VERIF',
            'enable': 'no hook is needed: every check reads /repo through the compiler front end (clang-14 -emit-llvm / '
                      '-fsyntax-only) and never runs it',
            'baseline_off_cmd': 'cmake --build /repo/_build && ctest --test-dir /repo/_build -j8 --timeout 900',
            'source_commits': [],
            'add_only': True,
        },
        'engines': [
            {'name': 'bpa', 'path': 'verif/bpa.py', 'serves_properties': sorted(CHECKS),
             'kind_free_text': 'abstract interpreter over LLVM-14 IR with a per-bit provenance domain (bits.py); '
                               'IR built from /repo by clang-14 on every run'},
        ],
        'checks': checks,
        'not_applicable': na,
        'notes': 'Static analysis only. Exit 0 = all obligations held (known findings printed as KNOWN-FINDING); exit 1 = '
                 'VIOLATION not listed in KNOWN_FINDINGS.txt; exit 2 = analysis broken (tree does not build, anchor vanished, '
                 'undecided obligation).',
    }
    with open(os.path.join(HERE, 'MANIFEST.json'), 'w') as f:
        json.dump(m, f, indent=1)
    print('wrote MANIFEST.json with %d checks, %d not_applicable' % (len(checks), len(na)))


NOT_APPLICABLE = {}

if __name__ == '__main__':
    main()
