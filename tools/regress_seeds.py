#!/usr/bin/env python3
"""Developer regression (not a registered check): re-apply every confirmed
seeded change in /verif/seeded to /repo (undone straight afterwards) and
require that at least one of the checks recorded in its meta.json still
reports a VIOLATION.  Seeds whose patch no longer applies to the current tree
are reported as skipped."""
import json
import os
import subprocess
import sys

VERIF = os.path.dirname(os.path.dirname(os.path.abspath(__file__)))
REPO = os.environ.get('VERIF_REPO', '/repo')
import tempfile
EVDIR = tempfile.mkdtemp(prefix='o1722v-ev-')     # a scratch clone may be used so that several tools can run at once


def sh(cmd, cwd=None, timeout=900):
    p = subprocess.run(cmd, shell=True, cwd=cwd, stdout=subprocess.PIPE, stderr=subprocess.STDOUT,
                       universal_newlines=True, timeout=timeout)
    return p.returncode, p.stdout


def main():
    only = sys.argv[1:]
    rc, out = sh('git -C %s status --porcelain --untracked-files=no' % REPO)
    if out.strip():
        raise SystemExit(REPO + ' has uncommitted changes')
    seeds = sorted(d for d in os.listdir(os.path.join(VERIF, 'seeded')) if os.path.isdir(os.path.join(VERIF, 'seeded', d)))
    bad = []
    for sd in seeds:
        if only and not any(sd.startswith(o) for o in only):
            continue
        mp = os.path.join(VERIF, 'seeded', sd, 'meta.json')
        patch = os.path.join(VERIF, 'seeded', sd, 'patch.diff')
        if not os.path.exists(mp) or not os.path.exists(patch):
            continue
        meta = json.load(open(mp))
        if not meta.get('confirmed'):
            continue
        if meta.get('out_of_domain'):
            print('%-6s not expected to be caught: %s' % (sd, meta['out_of_domain']))
            continue
        prop = meta['property']
        want = meta.get('caught_by') or [prop]
        checks = [prop] if prop in want else want[:1]
        rc, out = sh('git -C %s apply --check %s' % (REPO, patch))
        if rc:
            print('%-6s skipped: patch no longer applies to the current tree' % sd)
            continue
        sh('git -C %s apply %s' % (REPO, patch))
        try:
            hit = None
            codes = []
            for c in checks + [x for x in want if x not in checks][:1]:
                rc, out = sh('VERIF_EVIDENCE_DIR=%s VERIF_TIME_BUDGET=400 ./check %s --tier quick' % (EVDIR, c), cwd=VERIF, timeout=500)
                codes.append((c, rc))
                if rc == 1 and 'VIOLATION property=' in out:
                    hit = c
                    break
        finally:
            sh('git -C %s checkout -- .' % REPO)
        if hit:
            print('%-6s caught by %s' % (sd, hit))
        else:
            print('%-6s NOT CAUGHT any more: %s' % (sd, codes))
            bad.append(sd)
    print('regression: %d seed(s) lost' % len(bad))
    return 1 if bad else 0


if __name__ == '__main__':
    sys.exit(main())
