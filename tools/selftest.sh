#!/bin/sh
# Developer self-test (not a registered check): every behaviour-preserving variant in selftest/benign must leave
# every check silent (exit 0); every seeded change in seeded/*/patch.diff must be reported by the check(s) named in
# its meta.json "expect" list.  Applies each patch to /repo and undoes it straight afterwards.
cd /verif || exit 2
REPO=${VERIF_REPO:-/repo}
VERIF_EVIDENCE_DIR=$(mktemp -d ${TMPDIR:-/tmp}/o1722v-ev-XXXXXX); export VERIF_EVIDENCE_DIR
fail=0
for p in ${VARIANTS:-selftest/benign/*.diff}; do
  git -C $REPO apply "$PWD/$p" || { echo "cannot apply $p"; fail=1; continue; }
  for c in ${CHECKS:-C01 C02 C03 C04 C05 C06 C07 C08 C09 C10 C11 C12 C13 C14 C15 C16 C17 C18 C19 C20}; do
    ./check $c >${TMPDIR:-/tmp}/selftest.$$ 2>&1; rc=$?
    if [ $rc -ne 0 ]; then echo "BENIGN $p: $c exit $rc"; grep -E "^(UNDEC|VIOL|ANALYSIS)" ${TMPDIR:-/tmp}/selftest.$$ | head -2; fail=1; fi
  done
  git -C $REPO checkout -- .
  git -C $REPO clean -fdq -- src include examples
done
rm -f ${TMPDIR:-/tmp}/selftest.$$; rm -rf "$VERIF_EVIDENCE_DIR"
[ $fail -eq 0 ] && echo "benign variants: all checks silent"
exit $fail
