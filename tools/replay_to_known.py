#!/usr/bin/env python3
"""Developer helper (never run by a check): print `known:` lines for the
violations of the last run of one property, for manual review before they are
pasted into KNOWN_FINDINGS.txt."""
import glob, json, sys
pid = sys.argv[1]
for p in sorted(glob.glob('/verif/out/replay/%s-*.json' % pid), key=lambda x: int(x.rsplit('-', 1)[1][:-5])):
    r = json.load(open(p))
    print('known: property=%s key=%s :: %s' % (pid, r['key'], r['text']))
