"""Structural rules over un-optimised IR (DESIGN.md 2.4): pointer provenance
dataflow used by the alignment rule (C15) and the effect-confinement rule
(C16).  Flow-insensitive per function, with function summaries for returned
pointers; -O0 IR keeps every local in an alloca slot, so slots are tracked."""
from math import gcd

from .irparse import gep_result_type


def is_ptr(mod, t):
    return t is not None and mod.resolve(t)[0] == 'p'


def agg_with_ptr(mod, t, depth=0):
    """a first-class aggregate (small struct returned/passed by value) that contains a pointer"""
    try:
        rt = mod.resolve(t)
    except Exception:
        return False
    if depth > 4:
        return False
    if rt[0] == 's':
        return any(is_ptr(mod, e) or agg_with_ptr(mod, e, depth + 1) for e in rt[1])
    if rt[0] == 'a':
        return is_ptr(mod, rt[2]) or agg_with_ptr(mod, rt[2], depth + 1)
    return False


def tracked(mod, t):
    return is_ptr(mod, t) or agg_with_ptr(mod, t)


def decl_align(mod, t):
    """alignment the declared type of a tracked value promises (aggregates promise nothing themselves)"""
    return abi_align(mod, pointee(mod, t)) if is_ptr(mod, t) else 1


def pointee(mod, t):
    return mod.resolve(t)[1]


def abi_align(mod, t):
    try:
        rt = mod.resolve(t)
        if rt[0] in ('f', 'v', 'opaque'):
            return 1
        return mod.alignof(rt)
    except Exception:
        return 1


class PtrFacts(object):
    """Per-function facts about pointer-valued SSA names.
       align[name]   guaranteed alignment implied by the *declared* types of
                     where the pointer came from (casts add nothing)
       origin[name]  set of 'param:<n>' | 'alloca' | 'global:<g>' | 'heap' |
                     'loaded' (from param-reachable memory) | 'gloaded' (from a
                     global) | 'unknown'
    """

    def __init__(self, mod, fn, summaries):
        self.mod = mod
        self.fn = fn
        self.align = {}
        self.origin = {}
        self.slot_align = {}    # (alloca name, byte offset | None) -> min guarantee of pointers stored there
        self.slot_origin = {}
        self.slot_off = {}      # slot -> offset (within its base object) of the one pointer stored there | 'many'
        self.off = {}           # pointer SSA name -> constant byte offset from its (single) base object, or None
        self.summaries = summaries
        self.solve()

    def val_align(self, tv):
        t, v = tv
        mod = self.mod
        if v[0] == 'r':
            return self.align.get(v[1])
        if v[0] == 'g':
            g = mod.globals.get(v[1])
            if g is not None:
                return g.align or abi_align(mod, g.ty)
            return 1
        if v[0] == 'null' or v[0] == 'undef':
            return 1 << 30
        if v[0] == 'ce':
            if v[1] in ('bitcast', 'addrspacecast'):
                return self.val_align(v[2])
            if v[1] == 'getelementptr':
                base = self.val_align(v[3][0])
                if base is None:
                    return None
                return self.gep_align(base, v[2], v[3][1:])
            return 1
        return 1

    def val_origin(self, tv):
        t, v = tv
        if v[0] == 'r':
            return self.origin.get(v[1])
        if v[0] == 'g':
            if v[1] in self.mod.functions or v[1] in self.mod.declares:
                return frozenset(['function'])
            return frozenset(['global:' + v[1]])
        if v[0] in ('null', 'undef'):
            return frozenset()
        if v[0] == 'ce':
            if v[1] in ('bitcast', 'addrspacecast'):
                return self.val_origin(v[2])
            if v[1] == 'getelementptr':
                return self.val_origin(v[3][0])
            return frozenset(['unknown'])
        return frozenset(['unknown'])

    def val_off(self, tv):
        t, v = tv
        if v[0] == 'r':
            return self.off.get(v[1])
        if v[0] == 'g':
            return 0
        if v[0] == 'ce':
            if v[1] in ('bitcast', 'addrspacecast'):
                return self.val_off(v[2])
            if v[1] == 'getelementptr':
                b = self.val_off(v[3][0])
                c = self.gep_const(v[2], v[3][1:])
                return b + c if (b is not None and c is not None) else None
        return None

    def gep_const(self, bty, idx):
        mod = self.mod
        off = 0
        t = bty
        first = True
        for (it, iv) in idx:
            if iv[0] != 'c':
                return None
            w = mod.resolve(it)[1] if mod.resolve(it)[0] == 'i' else 64
            c = iv[1] - (1 << w) if iv[1] >> (w - 1) else iv[1]
            if first:
                off += c * mod.sizeof(t)
                first = False
                continue
            rt = mod.resolve(t)
            if rt[0] == 's':
                fo, et = mod.field_offset(rt, c)
                off += fo
                t = et
            elif rt[0] in ('a', 'vec'):
                off += c * mod.sizeof(rt[2])
                t = rt[2]
            else:
                return None
        return off

    def slot_keys(self, s, off):
        """slots of alloca s that a pointer at byte offset `off` (None: anywhere) may read"""
        if off is None:
            return [k for k in self.slot_align if k[0] == s]
        return [k for k in ((s, off), (s, None)) if k in self.slot_align]

    def gep_align(self, base, bty, idx):
        mod = self.mod
        a = base
        t = bty
        first = True
        for (it, iv) in idx:
            if first:
                stride = mod.sizeof(t)
                first = False
                if iv[0] == 'c':
                    off = abs(iv[1]) * stride
                    a = gcd(a, off) if off else a
                else:
                    a = gcd(a, stride) if stride else a
                continue
            rt = mod.resolve(t)
            if rt[0] == 's':
                fo, et = mod.field_offset(rt, iv[1])
                a = gcd(a, fo) if fo else a
                t = et
            elif rt[0] in ('a', 'vec'):
                stride = mod.sizeof(rt[2])
                if iv[0] == 'c':
                    off = abs(iv[1]) * stride
                    a = gcd(a, off) if off else a
                else:
                    a = gcd(a, stride) if stride else a
                t = rt[2]
        return max(a, 1)

    def solve(self):
        mod = self.mod
        fn = self.fn
        for (pt, pn, attrs) in fn.params:
            if is_ptr(mod, pt):
                a = abi_align(mod, pointee(mod, pt))
                for at in attrs:
                    if isinstance(at, tuple) and at[0] == 'align':
                        a = max(a, at[1])
                self.align[pn] = a
                self.origin[pn] = frozenset(['param:' + pn])
                self.off[pn] = 0
        instrs = list(fn.instrs())
        changed = True
        rounds = 0
        while changed and rounds < 50:
            changed = False
            rounds += 1
            for ins in instrs:
                d = ins.dest
                op = ins.op
                na = None
                no = None
                if op == 'call' and self._apply_out_summary(ins):
                    changed = True
                if op == 'call' and self._copy_slots(ins):
                    changed = True
                if op == 'alloca':
                    na = ins.x['align'] or abi_align(mod, ins.x['aty'])
                    no = frozenset(['alloca:' + d])
                    self.off[d] = 0
                elif op in ('bitcast', 'addrspacecast'):
                    if is_ptr(mod, ins.ty):
                        na = self.val_align(ins.args[0])
                        no = self.val_origin(ins.args[0])
                        self.off[d] = self.val_off(ins.args[0])
                elif op == 'getelementptr':
                    base = self.val_align(ins.args[0])
                    no = self.val_origin(ins.args[0])
                    if base is not None:
                        na = self.gep_align(base, ins.x['bty'], ins.args[1:])
                    bo = self.val_off(ins.args[0])
                    co = self.gep_const(ins.x['bty'], ins.args[1:])
                    self.off[d] = bo + co if (bo is not None and co is not None and no is not None and len(no) == 1) else None
                elif op == 'load':
                    if tracked(mod, ins.ty):
                        src_o = self.val_origin(ins.args[0])
                        if src_o is None:
                            continue
                        slots = [o[7:] for o in src_o if o.startswith('alloca:')]
                        others = [o for o in src_o if not o.startswith('alloca:')]
                        aa = None
                        oo = set()
                        so = self.val_off(ins.args[0]) if len(src_o) == 1 else None
                        offs = set()
                        for s in slots:
                            for k in self.slot_keys(s, so):
                                aa = self.slot_align[k] if aa is None else min(aa, self.slot_align[k])
                                oo |= self.slot_origin.get(k, set())
                                offs.add(self.slot_off.get(k, 'many'))
                        self.off[d] = None
                        if not others and len(offs) == 1 and len(oo) == 1:
                            (o1,) = offs
                            self.off[d] = o1 if o1 != 'many' else None
                        if others:
                            # a pointer stored in caller-visible memory: trust its declared type
                            da = decl_align(mod, ins.ty)
                            aa = da if aa is None else min(aa, da)
                            for o in others:
                                if o.startswith('global:') or o in ('gloaded',):
                                    oo.add('gloaded')
                                elif o == 'unknown':
                                    oo.add('unknown')
                                else:
                                    oo.add('loaded')
                        if aa is not None:
                            na = aa
                            no = frozenset(oo)
                elif op == 'store':
                    v = ins.args[0]
                    if tracked(mod, v[0]):
                        dst_o = self.val_origin(ins.args[1])
                        va = self.val_align(v)
                        vo = self.val_origin(v)
                        if dst_o is not None and va is not None and vo is not None:
                            do = self.val_off(ins.args[1]) if len(dst_o) == 1 else None
                            for o in dst_o:
                                if o.startswith('alloca:'):
                                    s = (o[7:], do)
                                    old = self.slot_align.get(s)
                                    new = va if old is None else min(old, va)
                                    oldo = self.slot_origin.get(s, set())
                                    newo = oldo | set(vo)
                                    vof = self.val_off(v) if len(vo) == 1 else None
                                    vof = 'many' if vof is None else vof
                                    if s in self.slot_off and self.slot_off[s] != vof:
                                        vof = 'many'
                                    if new != old or newo != oldo or self.slot_off.get(s) != vof:
                                        self.slot_align[s] = new
                                        self.slot_origin[s] = newo
                                        self.slot_off[s] = vof
                                        changed = True
                    continue
                elif op in ('phi', 'select'):
                    if tracked(mod, ins.ty):
                        vals = [tv for (tv, _) in ins.x['incoming']] if op == 'phi' else ins.args[1:]
                        aa = None
                        oo = set()
                        for tv in vals:
                            a1 = self.val_align(tv)
                            o1 = self.val_origin(tv)
                            if a1 is None or o1 is None:
                                continue
                            aa = a1 if aa is None else min(aa, a1)
                            oo |= set(o1)
                        if aa is not None:
                            na, no = aa, frozenset(oo)
                elif op == 'call':
                    if d is not None and tracked(mod, ins.ty):
                        na = decl_align(mod, ins.ty)
                        callee = ins.x['callee']
                        name = callee[1] if callee[0] == 'g' else None
                        oo = set()
                        summ = self.summaries.get(name)
                        if name and (name.startswith('llvm.mem') or name in ('memcpy', 'memset', 'memmove')):
                            o1 = self.val_origin(ins.args[0])
                            oo |= set(o1 or [])
                            a1 = self.val_align(ins.args[0])
                            if a1 is not None:
                                na = a1
                        elif summ is not None:
                            for o in summ:
                                if o.startswith('param#'):
                                    k = int(o[6:])
                                    if k < len(ins.args):
                                        o1 = self.val_origin(ins.args[k])
                                        oo |= set(o1 or [])
                                else:
                                    oo.add(o)
                        else:
                            oo.add('unknown')
                        no = frozenset(oo)
                elif op in ('insertvalue', 'extractvalue') and ins.args:
                    aty = ins.args[0][0]
                    if not agg_with_ptr(mod, aty):
                        continue
                    base_o = self.val_origin(ins.args[0]) if ins.args[0][1][0] == 'r' else frozenset()
                    if op == 'insertvalue':
                        vo = self.val_origin(ins.args[1]) if len(ins.args) > 1 and tracked(mod, ins.args[1][0]) else frozenset()
                        no = frozenset(set(base_o or ()) | set(vo or ()))
                        na = 1
                    else:
                        # type of the extracted member
                        fty = aty
                        try:
                            for ix in ins.x.get('indices', ()):
                                rt = mod.resolve(fty)
                                fty = rt[1][ix] if rt[0] == 's' else rt[2]
                        except Exception:
                            fty = None
                        if fty is None or not tracked(mod, fty):
                            continue
                        no = frozenset(base_o) if base_o else frozenset(['loaded'])
                        na = decl_align(mod, fty)
                elif op == 'inttoptr':
                    na = 1
                    no = frozenset(['unknown'])
                else:
                    continue
                if d is None or na is None or no is None:
                    continue
                if self.align.get(d) != na or self.origin.get(d) != no:
                    # monotone: alignment only decreases, origins only grow
                    if d in self.align:
                        na = min(na, self.align[d])
                        no = frozenset(set(no) | set(self.origin[d]))
                        if na == self.align[d] and no == self.origin[d]:
                            continue
                    self.align[d] = na
                    self.origin[d] = no
                    changed = True

    def _copy_slots(self, ins):
        """memcpy/memmove from one stack object to another (how an aggregate temporary is copied into a variable)
        carries the pointers stored in the source slots along"""
        callee = ins.x['callee']
        name = callee[1] if callee[0] == 'g' else ''
        if not (name.startswith('llvm.memcpy') or name.startswith('llvm.memmove') or name in ('memcpy', 'memmove')):
            return False
        if len(ins.args) < 3:
            return False
        do, so = self.val_origin(ins.args[0]), self.val_origin(ins.args[1])
        if not do or not so or len(do) != 1 or len(so) != 1:
            return False
        (d1,), (s1,) = tuple(do), tuple(so)
        if not d1.startswith('alloca:') or not s1.startswith('alloca:'):
            return False
        doff, soff = self.val_off(ins.args[0]), self.val_off(ins.args[1])
        n = ins.args[2][1][1] if ins.args[2][1][0] == 'c' else None
        ch = False
        for (sl, off) in list(self.slot_align):
            if sl != s1[7:]:
                continue
            if off is None or soff is None or doff is None:
                key = (d1[7:], None)
            elif n is not None and not (soff <= off < soff + n):
                continue
            else:
                key = (d1[7:], doff + off - soff)
            a, o = self.slot_align[(sl, off)], self.slot_origin.get((sl, off), set())
            olda, oldo = self.slot_align.get(key), self.slot_origin.get(key, set())
            newa = a if olda is None else min(olda, a)
            newo = oldo | o
            so_ = self.slot_off.get((sl, off), 'many')
            if key in self.slot_off and self.slot_off[key] != so_:
                so_ = 'many'
            if newa != olda or newo != oldo or self.slot_off.get(key) != so_:
                self.slot_align[key] = newa
                self.slot_origin[key] = newo
                self.slot_off[key] = so_
                ch = True
        return ch

    def _apply_out_summary(self, ins):
        """A callee that stores pointers through one of its pointer parameters (an out-structure filled with
        addresses derived from its other arguments): when the actual argument is one of this function's stack
        slots, the slot now holds pointers with the origins of the corresponding actual arguments."""
        callee = ins.x['callee']
        name = callee[1] if callee[0] == 'g' else None
        outs = self.summaries.get(('out', name)) if name else None
        if not outs:
            return False
        ch = False
        for (kdst, koff), (srcs, al) in outs.items():
            if kdst >= len(ins.args):
                continue
            dst_o = self.val_origin(ins.args[kdst])
            if not dst_o:
                continue
            ao = self.val_off(ins.args[kdst]) if len(dst_o) == 1 else None
            so = ao + koff if (ao is not None and koff is not None) else None
            oo = set()
            for o in srcs:
                if o.startswith('param#'):
                    k = int(o[6:])
                    if k < len(ins.args):
                        oo |= set(self.val_origin(ins.args[k]) or ['unknown'])
                else:
                    oo.add(o)
            for o in dst_o:
                if o.startswith('alloca:'):
                    sl = (o[7:], so)
                    old = self.slot_align.get(sl)
                    new = al if old is None else min(old, al)
                    oldo = self.slot_origin.get(sl, set())
                    newo = oldo | oo
                    if new != old or newo != oldo:
                        self.slot_align[sl] = new
                        self.slot_origin[sl] = newo
                        ch = True
        return ch

    def out_summary(self):
        """{index of a pointer parameter: (origins of the pointers stored through it, with params as 'param#k';
        their minimal guaranteed alignment)}"""
        out = {}
        pidx = {pn: k for k, (pt, pn, _) in enumerate(self.fn.params)}
        def conv(vo):
            srcs = set()
            for x in vo:
                if x.startswith('param:'):
                    srcs.add('param#%d' % pidx[x[6:]])
                elif x.startswith('alloca:'):
                    srcs.add('unknown')
                else:
                    srcs.add(x)
            return srcs
        # an out-parameter handed on to a callee that fills it (sret forwarded, `fill(out, ...)`)
        for ins in self.fn.instrs():
            if ins.op != 'call' or ins.x['callee'][0] != 'g':
                continue
            couts = self.summaries.get(('out', ins.x['callee'][1]))
            if not couts:
                continue
            for (kd, koff), (csrcs, cal) in couts.items():
                if kd >= len(ins.args):
                    continue
                do = self.val_origin(ins.args[kd]) or frozenset()
                if len(do) != 1:
                    continue
                (d1,) = tuple(do)
                if not d1.startswith('param:'):
                    continue
                doff = self.val_off(ins.args[kd])
                ko = (doff + koff) if (doff is not None and koff is not None) else None
                mapped = set()
                for x in csrcs:
                    if x.startswith('param#'):
                        j = int(x[6:])
                        if j < len(ins.args):
                            mapped |= conv(self.val_origin(ins.args[j]) or frozenset(['unknown']))
                    else:
                        mapped.add(x)
                k = (pidx[d1[6:]], ko)
                old = out.get(k)
                out[k] = (mapped | (old[0] if old else set()), min(cal, old[1]) if old else cal)
        # an aggregate built in a local and copied out through the parameter (`*out = local;` / sret)
        for ins in self.fn.instrs():
            if ins.op != 'call' or ins.x['callee'][0] != 'g' or len(ins.args) < 3:
                continue
            nm = ins.x['callee'][1]
            if not (nm.startswith('llvm.memcpy') or nm.startswith('llvm.memmove') or nm in ('memcpy', 'memmove')):
                continue
            do, so = self.val_origin(ins.args[0]) or frozenset(), self.val_origin(ins.args[1]) or frozenset()
            if len(do) != 1 or len(so) != 1:
                continue
            (d1,), (s1,) = tuple(do), tuple(so)
            if not d1.startswith('param:') or not s1.startswith('alloca:'):
                continue
            doff, soff = self.val_off(ins.args[0]), self.val_off(ins.args[1])
            for (sl, off), a in list(self.slot_align.items()):
                if sl != s1[7:]:
                    continue
                ko = (doff + off - soff) if None not in (doff, soff, off) else None
                k = (pidx[d1[6:]], ko)
                old = out.get(k)
                srcs = conv(self.slot_origin.get((sl, off), set()))
                out[k] = (srcs | (old[0] if old else set()), min(a, old[1]) if old else a)
        for ins in self.fn.instrs():
            if ins.op != 'store' or not is_ptr(self.mod, ins.args[0][0]):
                continue
            dst_o = self.val_origin(ins.args[1]) or frozenset()
            vo = self.val_origin(ins.args[0])
            va = self.val_align(ins.args[0])
            if vo is None:
                vo = frozenset(['unknown'])
            for d in dst_o:
                if not d.startswith('param:'):
                    continue
                srcs = set()
                for x in vo:
                    if x.startswith('param:'):
                        srcs.add('param#%d' % pidx[x[6:]])
                    elif x.startswith('alloca:'):
                        srcs.add('unknown')
                    else:
                        srcs.add(x)
                k = (pidx[d[6:]], self.val_off(ins.args[1]) if len(dst_o) == 1 else None)
                old = out.get(k)
                a = va if va is not None else 1
                out[k] = (srcs | (old[0] if old else set()), min(a, old[1]) if old else a)
        return out

    def ret_summary(self):
        """origins of returned pointers, with params as 'param#k'"""
        out = set()
        pidx = {pn: k for k, (pt, pn, _) in enumerate(self.fn.params)}
        for ins in self.fn.instrs():
            if ins.op == 'ret' and ins.args and tracked(self.mod, ins.args[0][0]):
                o = self.val_origin(ins.args[0]) or frozenset(['unknown'])
                for x in o:
                    if x.startswith('param:'):
                        out.add('param#%d' % pidx[x[6:]])
                    elif x.startswith('alloca:'):
                        out.add('unknown')
                    else:
                        out.add(x)
        return out


def analyse_module(mod, only=None):
    """-> {function name: PtrFacts}; two passes so that summaries of callees
    defined later are available."""
    summaries = {}
    facts = {}
    for _ in range(3):
        for name, fn in mod.functions.items():
            if only is not None and name not in only:
                continue
            pf = PtrFacts(mod, fn, summaries)
            facts[name] = pf
            summaries[name] = pf.ret_summary()
            summaries[('out', name)] = pf.out_summary()
    return facts


def access_sites(mod, fn):
    """Yield (ins, kind, pointer operand, access align, width description)."""
    for ins in fn.instrs():
        if ins.op == 'load':
            yield ins, 'load', ins.args[0], ins.x['align'] or abi_align(mod, ins.ty), type_name(mod, ins.ty)
        elif ins.op == 'store':
            yield ins, 'store', ins.args[1], ins.x['align'] or abi_align(mod, ins.args[0][0]), type_name(mod, ins.args[0][0])
        elif ins.op == 'call':
            c = ins.x['callee']
            name = c[1] if c[0] == 'g' else ''
            if name.startswith('llvm.memcpy') or name.startswith('llvm.memmove') or name.startswith('llvm.memset'):
                # alignment of mem intrinsics is carried by 'align N' parameter attributes; the
                # parser drops them, so re-read them from the text
                import re
                m = re.findall(r'\(([^()]*(?:\([^()]*\)[^()]*)*)\)\s*(?:#\d+)?\s*$', ins.text.split(', !dbg')[0])
                argtxt = m[0] if m else ''
                parts = split_args(argtxt)
                nptr = 2 if 'memset' not in name else 1
                for k in range(nptr):
                    am = re.search(r'\balign (\d+)', parts[k]) if k < len(parts) else None
                    a = int(am.group(1)) if am else 1
                    yield ins, ('memdst' if k == 0 else 'memsrc'), ins.args[k], a, name.split('.')[1]


def alignment_guarded(mod, fn, pf, ins, ptr_tv, need):
    """Is the access `ins` (needing `need`-byte alignment) dominated by the passing edge of a run-time test
    ((uintptr_t)q & (A-1)) == 0 / (uintptr_t)q % A == 0 with A >= need, on a pointer q of the same provenance?
    Such an access never executes misaligned, so it does not assume placement."""
    from .taint import FnInfo
    info = FnInfo(mod, fn)
    want = pf.val_origin(ptr_tv)
    if not want:
        return False
    for g in fn.order:
        term = fn.blocks[g][-1] if fn.blocks[g] else None
        if term is None or term.op != 'br' or len(term.x['targets']) != 2 or term.args[0][1][0] != 'r':
            continue
        c = info.defs.get(term.args[0][1][1])
        if c is None or c.op != 'icmp' or c.x['pred'] not in ('eq', 'ne'):
            continue
        (t1, a), (t2, b) = c.args
        if b != ('c', 0) or a[0] != 'r':
            continue
        m = info.defs.get(a[1])
        if m is None or m.op not in ('and', 'urem'):
            continue
        (tm1, x), (tm2, k) = m.args
        if k[0] != 'c' or x[0] != 'r':
            continue
        A = k[1] + 1 if m.op == 'and' else k[1]
        if A < need or (m.op == 'and' and (k[1] & (k[1] + 1)) != 0):
            continue
        pi = info.defs.get(x[1])
        # look through integer casts
        while pi is not None and pi.op in ('zext', 'trunc', 'sext') and pi.args[0][1][0] == 'r':
            pi = info.defs.get(pi.args[0][1][1])
        if pi is None or pi.op != 'ptrtoint':
            continue
        go = pf.val_origin(pi.args[0])
        if not go or set(go) != set(want):
            continue
        ok_edge = term.x['targets'][0] if c.x['pred'] == 'eq' else term.x['targets'][1]
        bad_edge = term.x['targets'][1] if c.x['pred'] == 'eq' else term.x['targets'][0]
        if ok_edge != bad_edge and info.dominates(ok_edge, ins.bb) and len(info.pred.get(ok_edge, [])) == 1:
            return True
    return False


def escape_sites(mod, fn, pf):
    """Places where a pointer leaves the function's view under a declared type that promises more alignment than
    its provenance guarantees: call arguments, pointers stored to non-local memory, returned pointers.
    Yields (ins, kind, declared alignment, guaranteed alignment, description)."""
    for ins in fn.instrs():
        if ins.op == 'call':
            c = ins.x['callee']
            name = c[1] if c[0] == 'g' else None
            if name and (name.startswith('llvm.') or name in ('memcpy', 'memset', 'memmove')):
                continue
            for k, (t, v) in enumerate(ins.args):
                if not is_ptr(mod, t):
                    continue
                need = abi_align(mod, pointee(mod, t))
                if need <= 1:
                    continue
                g = pf.val_align((t, v))
                if g is not None and g < need:
                    yield ins, 'argument', need, g, 'argument %d of %s (%s*)' % (k + 1, name or 'an indirect call', type_name(mod, pointee(mod, t)))
        elif ins.op == 'store':
            t, v = ins.args[0]
            if is_ptr(mod, t):
                need = abi_align(mod, pointee(mod, t))
                if need <= 1:
                    continue
                dst = pf.val_origin(ins.args[1])
                if dst is not None and all(o.startswith('alloca:') for o in dst):
                    continue          # local slot: tracked exactly
                g = pf.val_align((t, v))
                if g is not None and g < need:
                    yield ins, 'stored-pointer', need, g, 'pointer stored as %s*' % type_name(mod, pointee(mod, t))
        elif ins.op == 'ret' and ins.args:
            t, v = ins.args[0]
            if is_ptr(mod, t):
                need = abi_align(mod, pointee(mod, t))
                if need <= 1:
                    continue
                g = pf.val_align((t, v))
                if g is not None and g < need:
                    yield ins, 'returned-pointer', need, g, 'pointer returned as %s*' % type_name(mod, pointee(mod, t))


def split_args(s):
    out = []
    depth = 0
    cur = ''
    for ch in s:
        if ch in '([{<':
            depth += 1
        elif ch in ')]}>':
            depth -= 1
        if ch == ',' and depth == 0:
            out.append(cur)
            cur = ''
        else:
            cur += ch
    if cur.strip():
        out.append(cur)
    return out


def type_name(mod, t):
    rt = mod.resolve(t)
    if rt[0] == 'i':
        return 'i%d' % rt[1]
    if rt[0] == 'fl':
        return {32: 'float', 64: 'double'}.get(rt[1], 'fp%d' % rt[1])
    if rt[0] == 'p':
        return 'ptr'
    return rt[0]


# ---------------------------------------------------------------------------------------------------------------------
# Address-to-value rule (C15): the numeric value of an address that belongs to the caller must not flow into anything
# the caller can observe.  Explicit data flow only - a branch on ((uintptr_t)p & 3) that merely selects between two
# access strategies is control flow, and the engine-based checks fork on the unknown alignment and compare both ways.
INT_FLOW = {'add', 'sub', 'mul', 'udiv', 'sdiv', 'urem', 'srem', 'shl', 'lshr', 'ashr', 'and', 'or', 'xor',
            'zext', 'sext', 'trunc', 'freeze', 'icmp'}
COVARIANT_KEEP = {'zext', 'freeze'}          # (address + something address-free) keeps moving with the object


def _slot_of(info_defs, v):
    """alloca SSA name behind a pointer operand that is the alloca itself or a bitcast / all-zero gep of it"""
    seen = 0
    while v[0] == 'r' and seen < 8:
        d = info_defs.get(v[1])
        if d is None:
            return None
        if d.op == 'alloca':
            return v[1]
        if d.op in ('bitcast', 'addrspacecast'):
            v = d.args[0][1]
        elif d.op == 'getelementptr' and all(iv == ('c', 0) for (_, iv) in d.args[1:]):
            v = d.args[0][1]
        else:
            return None
        seen += 1
    return None


def _join_kind(a, b):
    if 'dep' in (a, b):
        return 'dep'
    if 'cov' in (a, b):
        return 'cov'
    return None


MEMFNS = ('memcpy', 'memmove', 'memset', 'memcmp', 'strncpy')


def address_value_sites(mod, facts, only=None):
    """-> (findings, stats).  A finding is (fn name, ins, sink kind, description).  Every integer SSA value and local
    slot carries (kind, params): kind is None < 'cov' (an address of caller memory plus an address-free term: it moves
    with the object and is harmless when turned into a pointer again) < 'dep' (anything else computed from such an
    address); params is the set of the function's own integer parameters the value is computed from.  Per function a
    summary (which parameters reach the return value / a sink) makes calls context-sensitive: a helper that byte-swaps
    its argument taints its result only where the argument was tainted."""
    fns = [f for f in sorted(mod.functions) if only is None or f in only]
    summ = {}                 # fn -> {'ret_kind': kind, 'ret_params': set(k), 'sink_params': {k: description}}
    stats = {'ptrtoint': 0, 'functions': len(fns), 'pointer slots read as integers': 0}
    findings = {}
    EMPTY = (None, frozenset())
    for _round in range(8):
        changed = False
        stats['ptrtoint'] = 0
        stats['pointer slots read as integers'] = 0
        findings = {}
        for name in fns:
            fn = mod.functions[name]
            pf = facts.get(name)
            defs = {i.dest: i for i in fn.instrs() if i.dest}
            taint = {}
            slot_taint = {}
            ptr_slots = set()
            mine = summ.setdefault(name, {'ret_kind': None, 'ret_params': set(), 'sink_params': {}})
            for k, (pt, pn, _a) in enumerate(fn.params):
                if not is_ptr(mod, pt):
                    taint[pn] = (None, frozenset([k]))

            def tv(v):
                if v[0] == 'r':
                    return taint.get(v[1], EMPTY)
                if v[0] == 'ce' and v[1] == 'ptrtoint':
                    return ('cov', frozenset())
                return EMPTY

            def local_only(ptv):
                o = pf.val_origin(ptv) if pf is not None else None
                return bool(o) and all(x.startswith('alloca:') or x.startswith('global:') or x == 'function' for x in o)

            def caller_visible(ptv):
                o = pf.val_origin(ptv) if pf is not None else None
                return not (o and all(x.startswith('alloca:') for x in o))

            def join(ts):
                k = None
                ps = frozenset()
                for (a, b) in ts:
                    k = _join_kind(k, a)
                    ps = ps | b
                return (k, ps)

            def set_slot(s, t):
                j = join([slot_taint.get(s, EMPTY), t])
                if slot_taint.get(s, EMPTY) != j:
                    slot_taint[s] = j
                    return True
                return False

            instrs = list(fn.instrs())
            for ins in instrs:
                if ins.op == 'store' and is_ptr(mod, ins.args[0][0]):
                    s = _slot_of(defs, ins.args[1][1])
                    if s and not local_only(ins.args[0]):
                        ptr_slots.add(s)
            it = True
            n = 0
            while it and n < 60:
                it = False
                n += 1
                for ins in instrs:
                    d = ins.dest
                    new = EMPTY
                    op = ins.op
                    if op == 'ptrtoint':
                        if not local_only(ins.args[0]):
                            new = ('cov', frozenset())
                    elif op in INT_FLOW:
                        ts = [tv(a[1]) for a in ins.args]
                        ks = [t[0] for t in ts]
                        ps = join(ts)[1]
                        if op == 'sub' and len(ks) == 2 and ks[0] and ks[1]:
                            new = (None, ps)                         # pointer difference: the placement cancels
                        elif op in ('add', 'sub') and len(ks) == 2 and ks.count(None) == 1 and 'dep' not in ks and (op == 'add' or ks[0]):
                            new = ('cov', ps)
                        elif op in COVARIANT_KEEP:
                            new = ts[0]
                        elif any(ks):
                            new = ('dep', ps)
                        else:
                            new = (None, ps)
                    elif op in ('phi', 'select'):
                        vals = [x for (x, _) in ins.x['incoming']] if op == 'phi' else ins.args[1:]
                        new = join([tv(a[1]) for a in vals])
                    elif op == 'load' and not is_ptr(mod, ins.ty):
                        s = _slot_of(defs, ins.args[0][1])
                        if s:
                            new = slot_taint.get(s, EMPTY)
                            if s in ptr_slots and mod.resolve(ins.ty)[0] == 'i':
                                new = join([new, ('cov', frozenset())])      # a pointer read back as an integer (type pun)
                    elif op == 'store':
                        s = _slot_of(defs, ins.args[1][1])
                        if s and not is_ptr(mod, ins.args[0][0]) and set_slot(s, tv(ins.args[0][1])):
                            it = True
                    elif op == 'call':
                        c = ins.x['callee']
                        cn = c[1] if c[0] == 'g' else None
                        base = cn.split('.')[1] if cn and cn.startswith('llvm.') else cn
                        if base in ('memcpy', 'memmove') and len(ins.args) >= 2:
                            ss = _slot_of(defs, ins.args[1][1])
                            sd = _slot_of(defs, ins.args[0][1])
                            if ss and sd and slot_taint.get(ss) and set_slot(sd, slot_taint[ss]):
                                it = True
                        elif cn in mod.functions and cn in summ:
                            cs = summ[cn]
                            ts = [tv(a[1]) for a in ins.args]
                            dep = [ts[k] for k in cs['ret_params'] if k < len(ts)]
                            j = join(dep)
                            k2 = 'dep' if j[0] else None
                            new = (_join_kind(cs['ret_kind'], k2), j[1])
                    if d and new != EMPTY:
                        j = join([taint.get(d, EMPTY), new])
                        if taint.get(d, EMPTY) != j:
                            taint[d] = j
                            it = True

            def sink(ins, t, kind, what):
                nonlocal changed
                if t[0]:
                    findings[(name, ins.bb, ins.idx, kind)] = (name, ins, kind, what)
                for k in t[1]:
                    if k not in mine['sink_params']:
                        mine['sink_params'][k] = (kind, what, name)
                        changed = True

            for ins in instrs:
                op = ins.op
                if op == 'ptrtoint' and not local_only(ins.args[0]):
                    stats['ptrtoint'] += 1
                if op == 'load' and _slot_of(defs, ins.args[0][1]) in ptr_slots and not is_ptr(mod, ins.ty) \
                        and mod.resolve(ins.ty)[0] == 'i':
                    stats['pointer slots read as integers'] += 1
                if op == 'store':
                    t = tv(ins.args[0][1])
                    if t != EMPTY and _slot_of(defs, ins.args[1][1]) is None and not is_ptr(mod, ins.args[0][0]) \
                            and caller_visible(ins.args[1]):
                        sink(ins, t, 'stored-value', 'a value computed from the numeric address of caller memory is stored where the caller can read it')
                elif op == 'ret' and ins.args and not is_ptr(mod, ins.args[0][0]):
                    t = tv(ins.args[0][1])
                    if t[0] and mine['ret_kind'] != _join_kind(mine['ret_kind'], t[0]):
                        mine['ret_kind'] = _join_kind(mine['ret_kind'], t[0])
                        changed = True
                    if not t[1] <= mine['ret_params']:
                        mine['ret_params'] |= t[1]
                        changed = True
                    if t[0] and not (set(fn.linkage) & {'internal', 'private'}):
                        findings[(name, ins.bb, ins.idx, 'ret')] = (name, ins, 'returned-value',
                                                                    'the return value is computed from the numeric address of caller memory')
                elif op == 'inttoptr':
                    t = tv(ins.args[0][1])
                    if t[0] == 'dep':
                        findings[(name, ins.bb, ins.idx, 'itp')] = (name, ins, 'address-from-address-bits',
                                                                    'a pointer is rebuilt from address bits that do not move with the object (rounding, masking)')
                elif op == 'getelementptr':
                    for a in ins.args[1:]:
                        t = tv(a[1])
                        if t != EMPTY:
                            sink(ins, t, 'offset', 'an offset into an object is computed from the numeric address of caller memory')
                elif op == 'call':
                    c = ins.x['callee']
                    cn = c[1] if c[0] == 'g' else None
                    base = cn.split('.')[1] if cn and cn.startswith('llvm.') else cn
                    if base in MEMFNS:
                        if len(ins.args) > 2 and not is_ptr(mod, ins.args[2][0]):
                            t = tv(ins.args[2][1])
                            if t != EMPTY:
                                sink(ins, t, 'length', 'the length of a %s is computed from the numeric address of caller memory' % base)
                        if base == 'memset' and len(ins.args) > 1:
                            t = tv(ins.args[1][1])
                            if t != EMPTY and caller_visible(ins.args[0]):
                                sink(ins, t, 'stored-value', 'the fill value of a memset is computed from the numeric address of caller memory')
                        if base in ('memcpy', 'memmove') and len(ins.args) > 1:
                            ss = _slot_of(defs, ins.args[1][1])
                            if ss and slot_taint.get(ss) and _slot_of(defs, ins.args[0][1]) is None and caller_visible(ins.args[0]):
                                sink(ins, slot_taint[ss], 'stored-value',
                                     'bytes computed from the numeric address of caller memory are copied to where the caller can read them')
                    elif cn in mod.functions and cn in summ:
                        cs = summ[cn]
                        for k, a in enumerate(ins.args):
                            if k in cs['sink_params'] and not is_ptr(mod, a[0]):
                                t = tv(a[1])
                                if t != EMPTY:
                                    kind, what, where = cs['sink_params'][k]
                                    sink(ins, t, kind, 'argument %d of %s: inside %s, %s' % (k + 1, cn, where, what))
        if not changed:
            break
    return sorted(findings.values(), key=lambda f: (f[0], f[1].bb, f[1].idx)), stats
