"""Generic sweep: Avtp_GetField / Avtp_SetField on synthetic descriptor tables
covering every descriptor shape the walkers accept (DESIGN.md 4.1/4.2)."""
from . import bits as B
from . import bpa
from . import fieldchecks as FC
from .bpa import Ptr, Region
from .par import pmap
from .report import Broken

CTX = None
TBL = 'tbl'

QUICK_W = [0, 1, 2, 3, 7, 8, 9, 15, 16, 17, 24, 29, 31, 32, 33, 48, 63, 64]
QUICK_O = [0, 1, 3, 7, 8, 13, 16, 24, 27, 31]


def shapes(tier):
    if tier == 'thorough':
        return [(q, o, w) for q in (0, 1, 7) for o in range(32) for w in range(65)]
    return [(q, o, w) for q in (0, 2) for o in QUICK_O for w in QUICK_W]


def _desc_layout(mod):
    """(sizeof, {member: (offset, size)}) of Avtp_FieldDescriptor_t as folded by the compiler (Ctx.facts)"""
    lay = getattr(mod, 'desc_layout', None)
    if lay is None:
        raise Broken('layout of Avtp_FieldDescriptor_t was not evaluated (Ctx.facts() not called)')
    return lay


def _table(mod, q, o, w):
    size, members = _desc_layout(mod)
    # two rows: row 0 is a decoy, row 1 the descriptor under analysis
    mem = {}
    for i in range(2 * size):
        mem[i] = 0

    def put(row, member, value):
        off, n = members[member]
        bs = (value & ((1 << (8 * n)) - 1)).to_bytes(n, 'big' if mod.big_endian else 'little')
        for i in range(n):
            mem[row * size + off + i] = bs[i]
    put(0, 'quadlet', 0)
    put(0, 'offset', 5)
    put(0, 'bits', 11)
    put(1, 'quadlet', q)
    put(1, 'offset', o)
    put(1, 'bits', w)
    return Region(TBL, 'global', 2 * size, mem, writable=False)


def _extent(q, o, w):
    if w == 0:
        return 4 * q, 4 * q
    nq = (o + w + 31) // 32
    return 4 * q, 4 * (q + nq)


def _get(shape):
    q, o, w = shape
    ctx = CTX
    mod = ctx.mod
    fn = ctx.fn('Avtp_GetField')
    lo, hi = _extent(q, o, w)
    fld = {'bit': 32 * q + o, 'width': w, 'name': 'desc(q=%d,o=%d,w=%d)' % shape}

    def make():
        regs = {FC.PDU: Region(FC.PDU, 'sym', hi), TBL: _table(mod, q, o, w)}
        return [Ptr(TBL, 0), 2, Ptr(FC.PDU, 0), 1], regs
    ws = bpa.analyse(mod, 'Avtp_GetField', make, max_worlds=32, max_steps=200000, gcache=ctx.gcache)
    key = 'generic-get:q%d:o%d:w%d' % shape
    where = FC.fnloc(ctx, 'Avtp_GetField')
    oks, err = FC.ok_worlds(ws)
    if err:
        return ('undecided', key, '%s %s: %s' % (where, fld['name'], err))
    R = FC.ret_width(mod, fn)
    exp = FC.expected_get(fld, R)
    last = None
    for wd in oks:
        with FC.with_world(wd.decisions):
            last = _get_world(wd, shape, fld, key, where, R, exp, lo, hi)
        if last[0] != 'ok':
            return last
    return last


def _get_world(wd, shape, fld, key, where, R, exp, lo, hi):
    q, o, w = shape
    st, info = FC.compare_vec(wd.ret, exp, R)
    if st == 'differs':
        i, wit = info
        return ('violation', key + ':value',
                '%s: descriptor %s: result bit %d is %s, expected %s; witness buffer: %s'
                % (where, fld['name'], i, B.fmt_term(B.to_bits(wd.ret, R)[i]), B.fmt_term(exp[i]), FC.fmt_env(wit)))
    if st == 'unknown':
        ub = FC.ub_note({'notes': wd.notes})
        if ub:
            return ('violation', key + ':undefined-shift', '%s: descriptor %s: result bit %d is produced by undefined behaviour on '
                    'this target: %s' % (where, fld['name'], info, ub))
        return ('undecided', key, '%s: descriptor %s: result bit %d undetermined' % (where, fld['name'], info))
    r = wd.regions[FC.PDU]
    if r.writes:
        return ('violation', key + ':writes', '%s: descriptor %s: reader writes octets %s'
                % (where, fld['name'], sorted(r.writes)))
    out = [x for x in r.reads if x < lo or x >= hi]
    if out or r.unknown_read:
        return ('violation', key + ':extent', '%s: descriptor %s: reads octets %s outside the quadlets the field occupies [%d,%d)'
                % (where, fld['name'], out, lo, hi))
    return ('ok', key, {'descriptor': fld['name'], 'result': B.fmt_vec(wd.ret, R) if w <= 9 else '(%d symbolic bits)' % w,
                        'octets_read': sorted(r.reads)})


def _set(shape):
    q, o, w = shape
    ctx = CTX
    mod = ctx.mod
    fn = ctx.fn('Avtp_SetField')
    lo, hi = _extent(q, o, w)
    fld = {'bit': 32 * q + o, 'width': w, 'name': 'desc(q=%d,o=%d,w=%d)' % shape}
    P = FC.param_width(mod, fn, 4)

    def make():
        regs = {FC.PDU: Region(FC.PDU, 'sym', hi), TBL: _table(mod, q, o, w)}
        return [Ptr(TBL, 0), 2, Ptr(FC.PDU, 0), 1, bpa.sym_arg('v', P)], regs
    ws = bpa.analyse(mod, 'Avtp_SetField', make, max_worlds=32, max_steps=200000, gcache=ctx.gcache)
    key = 'generic-set:q%d:o%d:w%d' % shape
    where = FC.fnloc(ctx, 'Avtp_SetField')
    oks, err = FC.ok_worlds(ws)
    if err:
        return ('undecided', key, '%s %s: %s' % (where, fld['name'], err))
    last = None
    for wd in oks:
        with FC.with_world(wd.decisions):
            last = _set_world(wd, shape, fld, key, where, P, lo, hi)
        if last[0] != 'ok':
            return last
    return last


def _set_world(wd, shape, fld, key, where, P, lo, hi):
    q, o, w = shape
    r = wd.regions[FC.PDU]
    exp = FC.expected_set_mem(fld, P, hi, r.writes)
    for oc in sorted(exp):
        act = r.mem.get(oc)
        actb = tuple(('I', FC.PDU, oc, b) for b in range(8)) if act is None else B.to_bits(act, 8)
        for b in range(8):
            a, e = actb[b], exp[oc][b]
            if a == e:
                continue
            if not B.is_unknown(a) and FC.same_under_pc(a, e):
                continue
            if B.is_unknown(a):
                ub = FC.ub_note({'notes': wd.notes})
                if ub:
                    return ('violation', key + ':undefined-shift', '%s: descriptor %s: octet %d bit %d is produced by undefined '
                            'behaviour on this target: %s' % (where, fld['name'], oc, b, ub))
                return ('undecided', key, '%s: descriptor %s: octet %d bit %d undetermined' % (where, fld['name'], oc, b))
            wit = FC.find_witness(a, e)
            if wit is None:
                return ('undecided', key, '%s: descriptor %s: octet %d bit %d: %s vs %s not separable'
                        % (where, fld['name'], oc, b, B.fmt_term(a), B.fmt_term(e)))
            return ('violation', key + ':value',
                    '%s: descriptor %s: octet %d bit %d holds %s after the write, expected %s; witness: %s'
                    % (where, fld['name'], oc, b, B.fmt_term(a), B.fmt_term(e), FC.fmt_env(wit)))
    out = [x for x in (r.writes | r.reads) if x < lo or x >= hi]
    if out or r.unknown_write:
        return ('violation', key + ':extent', '%s: descriptor %s: touches octets %s outside [%d,%d)'
                % (where, fld['name'], sorted(out), lo, hi))
    return ('ok', key, {'descriptor': fld['name'], 'octets_written': sorted(r.writes)})


def _run(ctx, tier, res, tag, worker, label):
    global CTX
    CTX = ctx
    sh = shapes(tier)
    outs = pmap(worker, sh)
    n_ok = 0
    for s, (st, key, info) in zip(sh, outs):
        res.count('generic %s descriptors analysed%s' % (label, tag))
        if st == 'ok':
            res.ok()
            n_ok += 1
            if s in ((0, 7, 9), (0, 27, 5), (2, 31, 64)):
                res.sample(dict(info, function='Avtp_%sField' % ('Get' if label == 'reader' else 'Set')), limit=12)
        elif st == 'violation':
            res.violation(key + tag, info)
        else:
            res.undec(info)
    res.extra['generic_%s_exhaustive%s' % (label, tag)] = (tier == 'thorough')


def run_reader(ctx, tier, res, tag=''):
    _run(ctx, tier, res, tag, _get, 'reader')


def run_writer(ctx, tier, res, tag=''):
    _run(ctx, tier, res, tag, _set, 'writer')
