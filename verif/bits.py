"""Bit-term algebra of the bit-provenance domain.

A bit term is
   0 | 1                       constants
   'T'                         unknown (top)
   'U'                         read of uninitialised local memory (also unknown)
   ('I', region, byte, bit)    bit `bit` (0 = least significant) of byte `byte`
                               of region `region` as it was on entry
   ('A', name, k)              bit k of scalar argument `name`
   ('C', kind, ...)            comparison atom (a boolean function of other
                               variables that is kept opaque)
   ('X', frozenset({monomial}))  algebraic normal form: XOR of monomials, a
                               monomial is a frozenset of variables (the empty
                               monomial is the constant 1)
Variables are the 'I', 'A' and 'C' tuples.  The ANF of a boolean function is
unique, so two T-free terms are structurally equal iff they denote the same
function of their variables (with 'C' atoms regarded as free variables).

An n-bit value is a Python int (all bits constant) or a tuple of n bit terms,
least significant first.
"""

TOP = 'T'
UNDEF = 'U'
MAX_MONOMIALS = 96

_ONE = frozenset()


def is_unknown(t):
    return t is TOP or t is UNDEF or t == 'T' or t == 'U'


def _anf(t):
    """term -> frozenset of monomials (t must not be unknown)."""
    if t == 0:
        return frozenset()
    if t == 1:
        return frozenset((_ONE,))
    if t[0] == 'X':
        return t[1]
    return frozenset((frozenset((t,)),))


def _from_anf(s):
    if not s:
        return 0
    if len(s) == 1:
        (m,) = s
        if not m:
            return 1
        if len(m) == 1:
            (v,) = m
            return v
    if len(s) > MAX_MONOMIALS:
        return TOP
    return ('X', s)


def b_not(a):
    if a == 0:
        return 1
    if a == 1:
        return 0
    if is_unknown(a):
        return TOP
    return _from_anf(_anf(a) ^ frozenset((_ONE,)))


def b_xor(a, b):
    if a == 0:
        return b if not is_unknown(b) else TOP
    if b == 0:
        return a if not is_unknown(a) else TOP
    if is_unknown(a) or is_unknown(b):
        return TOP
    if a == b:
        return 0
    return _from_anf(_anf(a) ^ _anf(b))


def b_and(a, b):
    if a == 0 or b == 0:
        return 0
    if a == 1:
        return b if not is_unknown(b) else TOP
    if b == 1:
        return a if not is_unknown(a) else TOP
    if is_unknown(a) or is_unknown(b):
        return TOP
    if a == b:
        return a
    res = set()
    fa = _anf(a)
    fb = _anf(b)
    if len(fa) * len(fb) > 4 * MAX_MONOMIALS:
        return TOP
    for m1 in fa:
        for m2 in fb:
            m = m1 | m2
            if m in res:
                res.discard(m)
            else:
                res.add(m)
    return _from_anf(frozenset(res))


def b_or(a, b):
    if a == 1 or b == 1:
        return 1
    if a == 0:
        return b if not is_unknown(b) else TOP
    if b == 0:
        return a if not is_unknown(a) else TOP
    if is_unknown(a) or is_unknown(b):
        return TOP
    if a == b:
        return a
    return b_xor(b_xor(a, b), b_and(a, b))


def b_ite(c, a, b):
    if c == 1:
        return a
    if c == 0:
        return b
    if a == b and not is_unknown(a):
        return a
    if is_unknown(c):
        return TOP
    return b_xor(b_and(c, a), b_and(b_not(c), b))


# ---- vectors ------------------------------------------------------------

def norm(bits):
    """tuple of terms -> int if all constant, else the tuple."""
    v = 0
    for i, b in enumerate(bits):
        if b == 1:
            v |= 1 << i
        elif b != 0:
            return tuple(bits)
    return v


def to_bits(v, w):
    if isinstance(v, int):
        return tuple((v >> i) & 1 for i in range(w))
    if len(v) != w:
        raise ValueError('width mismatch %d vs %d' % (len(v), w))
    return v


def mask(w):
    return (1 << w) - 1


def v_and(a, b, w):
    if isinstance(a, int) and isinstance(b, int):
        return a & b
    a = to_bits(a, w)
    b = to_bits(b, w)
    return norm([b_and(x, y) for x, y in zip(a, b)])


def v_or(a, b, w):
    if isinstance(a, int) and isinstance(b, int):
        return a | b
    a = to_bits(a, w)
    b = to_bits(b, w)
    return norm([b_or(x, y) for x, y in zip(a, b)])


def v_xor(a, b, w):
    if isinstance(a, int) and isinstance(b, int):
        return a ^ b
    a = to_bits(a, w)
    b = to_bits(b, w)
    return norm([b_xor(x, y) for x, y in zip(a, b)])


def v_shl(a, n, w):
    if isinstance(a, int):
        return (a << n) & mask(w) if n < w else 0
    if n >= w:
        return 0
    return norm((0,) * n + tuple(a[:w - n]))


def v_lshr(a, n, w):
    if isinstance(a, int):
        return a >> n if n < w else 0
    if n >= w:
        return 0
    return norm(tuple(a[n:]) + (0,) * n)


def v_ashr(a, n, w):
    if isinstance(a, int):
        if a >> (w - 1):
            a -= 1 << w
        return (a >> min(n, w - 1)) & mask(w)
    s = a[w - 1]
    n = min(n, w)
    return norm(tuple(a[n:]) + (s,) * n)


def v_trunc(a, w_from, w_to):
    if isinstance(a, int):
        return a & mask(w_to)
    return norm(a[:w_to])


def v_zext(a, w_from, w_to):
    if isinstance(a, int):
        return a
    return tuple(a) + (0,) * (w_to - w_from)


def v_sext(a, w_from, w_to):
    if isinstance(a, int):
        if a >> (w_from - 1):
            return a | (mask(w_to) ^ mask(w_from))
        return a
    return norm(tuple(a) + (a[w_from - 1],) * (w_to - w_from))


def possibly_set(a, w):
    """bit mask of positions that are not the constant 0."""
    if isinstance(a, int):
        return a
    m = 0
    for i, b in enumerate(a):
        if b != 0:
            m |= 1 << i
    return m


def v_add(a, b, w, cin=0):
    if isinstance(a, int) and isinstance(b, int):
        return (a + b + cin) & mask(w)
    if not cin and possibly_set(a, w) & possibly_set(b, w) == 0:
        return v_or(a, b, w)
    a = to_bits(a, w)
    b = to_bits(b, w)
    out = []
    c = 1 if cin else 0
    opaque = None
    for i, (x, y) in enumerate(zip(a, b)):
        if opaque is not None:
            out.append(('C', 'add', opaque[0], opaque[1], w, i, 1 if cin else 0))
            continue
        if is_unknown(c):
            out.append(TOP)
            continue
        s = b_xor(b_xor(x, y), c)
        # carry = xy ^ c(x^y)
        c2 = b_xor(b_and(x, y), b_and(c, b_xor(x, y)))
        if (is_unknown(s) or is_unknown(c2)) and not has_unknown(tuple(a)) and not has_unknown(tuple(b)) and \
                not _has_sum_atom(a) and not _has_sum_atom(b):
            # the carry chain of two symbolic operands outgrew the normal form: from here on the sum bits are opaque
            # (but evaluable) atoms "bit i of a + b", canonical in the ordered pair of operands
            # (operands that already contain sum atoms are not nested: the terms would grow without bound)
            ta, tb = tuple(a), tuple(b)
            opaque = (ta, tb) if _vec_key(ta) <= _vec_key(tb) else (tb, ta)
            out.append(('C', 'add', opaque[0], opaque[1], w, i, 1 if cin else 0) if is_unknown(s) else s)
            continue
        c = c2
        out.append(s)
    return norm(out)


def _has_sum_atom(bits):
    for t in bits:
        if isinstance(t, tuple) and t:
            if t[0] == 'C' and t[1] == 'add':
                return True
            if t[0] == 'X':
                for m in t[1]:
                    for v in m:
                        if v[0] == 'C' and v[1] == 'add':
                            return True
    return False


def _vec_key(bits):
    """cheap, deterministic ordering key of an operand vector (commutativity of +)"""
    out = []
    for t in bits:
        if t == 0 or t == 1:
            out.append((0, t))
        elif t[0] in ('I', 'A'):
            out.append((1, repr(t)))
        elif t[0] == 'X':
            out.append((2, len(t[1]), sorted(len(m) for m in t[1])[:4]))
        else:
            out.append((3, t[1]))
    return repr(out)


def v_not(a, w):
    if isinstance(a, int):
        return a ^ mask(w)
    return norm([b_not(x) for x in a])


def v_sub(a, b, w):
    if isinstance(a, int) and isinstance(b, int):
        return (a - b) & mask(w)
    nb = v_not(b, w)
    return v_add(a, nb, w, cin=1)          # a - b = a + ~b + 1 in one carry chain


def v_mul(a, b, w):
    if isinstance(a, int) and isinstance(b, int):
        return (a * b) & mask(w)
    if isinstance(b, int):
        a, b = b, a
    if isinstance(a, int):
        # constant times symbolic: shift-add
        acc = 0
        i = 0
        while a:
            if a & 1:
                acc = v_add(acc, v_shl(b, i, w), w)
            a >>= 1
            i += 1
        return acc
    return (TOP,) * w


def v_top(w):
    return (TOP,) * w


def has_unknown(v):
    if isinstance(v, int):
        return False
    for b in v:
        if b == 'T' or b == 'U':
            return True
    return False


def bswap(a, w):
    if isinstance(a, int):
        return int.from_bytes(a.to_bytes(w // 8, 'little'), 'big')
    n = w // 8
    out = []
    for k in range(n):
        out.extend(a[(n - 1 - k) * 8:(n - k) * 8])
    return norm(out)


# ---- variables, evaluation ----------------------------------------------

def term_vars(t, acc):
    if t == 0 or t == 1 or is_unknown(t):
        return
    if t[0] == 'X':
        for m in t[1]:
            for v in m:
                _var_vars(v, acc)
    else:
        _var_vars(t, acc)


def _var_vars(v, acc):
    if v[0] == 'C':
        acc.add(v)
        for x in v[2:]:
            if isinstance(x, (tuple, frozenset)):
                for b in x:
                    if isinstance(b, tuple):
                        term_vars(b, acc)
    else:
        acc.add(v)


def eval_term(t, env):
    """Evaluate a T-free term under env: var -> 0/1 (missing vars = 0)."""
    if t == 0 or t == 1:
        return t
    if is_unknown(t):
        raise ValueError('unknown bit')
    if t[0] == 'X':
        r = 0
        for m in t[1]:
            p = 1
            for v in m:
                if not eval_var(v, env):
                    p = 0
                    break
            r ^= p
        return r
    return eval_var(t, env)


def eval_vec(v, w, env):
    if isinstance(v, int):
        return v
    r = 0
    for i, b in enumerate(v):
        if eval_term(b, env):
            r |= 1 << i
    return r


def eval_var(v, env):
    if v[0] == 'C':
        return eval_atom(v, env)
    return env.get(v, 0)


def eval_atom(a, env):
    kind = a[1]
    if kind == 'any':
        for b in a[2]:
            if eval_term(b, env):
                return 1
        return 0
    if kind == 'add':
        # ('C','add', lhs bits, rhs bits, w, i): bit i of lhs + rhs
        return ((eval_vec(a[2], a[4], env) + eval_vec(a[3], a[4], env) + (a[6] if len(a) > 6 else 0)) >> a[5]) & 1
    if kind == 'cmp':
        # ('C','cmp', pred, lhs, rhs, w)
        pred, l, r, w = a[2], a[3], a[4], a[5]
        lv = eval_vec(l, w, env)
        rv = eval_vec(r, w, env)
        return int(cmp_concrete(pred, lv, rv, w))
    raise ValueError('unknown atom kind %r' % (kind,))


def _signed(v, w):
    return v - (1 << w) if v >> (w - 1) else v


def cmp_concrete(pred, a, b, w):
    if pred == 'eq':
        return a == b
    if pred == 'ne':
        return a != b
    if pred == 'ult':
        return a < b
    if pred == 'ule':
        return a <= b
    if pred == 'ugt':
        return a > b
    if pred == 'uge':
        return a >= b
    sa, sb = _signed(a, w), _signed(b, w)
    if pred == 'slt':
        return sa < sb
    if pred == 'sle':
        return sa <= sb
    if pred == 'sgt':
        return sa > sb
    if pred == 'sge':
        return sa >= sb
    raise ValueError(pred)


def make_any(bitlist):
    """OR of the given bit terms as a canonical atom / constant."""
    bs = []
    for b in bitlist:
        if b == 1:
            return 1
        if b == 0:
            continue
        if is_unknown(b):
            return TOP
        bs.append(b)
    if not bs:
        return 0
    fs = frozenset(bs)
    if len(fs) == 1:
        return bs[0]
    return ('C', 'any', fs)


def v_icmp(pred, a, b, w):
    """-> bit term"""
    if isinstance(a, int) and isinstance(b, int):
        return int(cmp_concrete(pred, a, b, w))
    if has_unknown(a) or has_unknown(b):
        # still decidable if a constant position differs for eq/ne
        if pred in ('eq', 'ne'):
            ab, bb = to_bits(a, w), to_bits(b, w)
            for x, y in zip(ab, bb):
                if (x == 0 and y == 1) or (x == 1 and y == 0):
                    return 1 if pred == 'ne' else 0
        return TOP
    ab, bb = to_bits(a, w), to_bits(b, w)
    if pred in ('eq', 'ne'):
        diff = []
        for x, y in zip(ab, bb):
            if (x == 0 and y == 1) or (x == 1 and y == 0):
                return 1 if pred == 'ne' else 0
            d = b_xor(x, y)
            diff.append(d)
        anyd = make_any(diff)
        return anyd if pred == 'ne' else b_not(anyd)
    # ordering predicates: canonicalise threshold tests against a constant
    # sign handling: if both top bits are the constant 0, signed == unsigned
    if pred[0] == 's':
        if ab[w - 1] == 0 and bb[w - 1] == 0:
            pred = 'u' + pred[1:]
        else:
            return ('C', 'cmp', pred, tuple(ab), tuple(bb), w)
    # normalise to lhs symbolic, rhs constant
    if isinstance(a, int) and not isinstance(b, int):
        swap = {'ult': 'ugt', 'ugt': 'ult', 'ule': 'uge', 'uge': 'ule'}
        return v_icmp(swap[pred], b, a, w)
    if isinstance(b, int):
        c = b
        # x ugt c  <=>  x uge c+1 ; x ule c <=> not(x uge c+1); x ult c <=> not(x uge c)
        neg = False
        if pred == 'ugt':
            c += 1
        elif pred == 'ule':
            c += 1
            neg = True
        elif pred == 'ult':
            neg = True
        # now test: x uge c
        if c <= 0:
            res = 1
        elif c > mask(w):
            res = 0
        else:
            # upper bound of x from constant-zero bits
            hi = possibly_set(ab, w)
            lo = 0
            for i, x in enumerate(ab):
                if x == 1:
                    lo |= 1 << i
            if hi < c:
                res = 0
            elif lo >= c:
                res = 1
            elif c & (c - 1) == 0:
                k = c.bit_length() - 1
                res = make_any(ab[k:])
            else:
                res = ('C', 'cmp', 'uge', tuple(ab), c, w)
        return b_not(res) if neg else res
    return ('C', 'cmp', pred, tuple(ab), tuple(bb), w)


def fmt_term(t):
    if t == 0 or t == 1:
        return str(t)
    if is_unknown(t):
        return '?' if t == 'T' else 'undef'
    if t[0] == 'I':
        return '%s[%d].%d' % (t[1], t[2], t[3])
    if t[0] == 'A':
        return '%s.%d' % (t[1], t[2])
    if t[0] == 'C':
        if t[1] == 'any':
            bs = sorted(fmt_term(b) for b in t[2])
            return 'any(%s)' % ','.join(bs if len(bs) < 6 else bs[:2] + ['..'] + bs[-2:])
        if t[1] == 'add':
            return 'sum.%d(%s + %s%s)' % (t[5], fmt_vec(t[2], t[4]), fmt_vec(t[3], t[4]), ' + 1' if len(t) > 6 and t[6] else '')
        return 'cmp(%s,%s,%s)' % (t[2], fmt_vec(t[3], t[5]), fmt_vec(t[4], t[5]))
    if t[0] == 'X':
        ms = []
        for m in t[1]:
            ms.append('&'.join(sorted(fmt_term(v) for v in m)) or '1')
        return '(' + ' ^ '.join(sorted(ms)) + ')'
    return repr(t)


def fmt_vec(v, w):
    if isinstance(v, int):
        return hex(v)
    return '<' + ' '.join(fmt_term(b) for b in reversed(v)) + '>'


# ---- path conditions ---------------------------------------------------------

class PathCond(object):
    """The decisions of one world: [(term, bool)].  Equalities that the world
    assumes (an 'any' atom decided false, i.e. every member is 0) are turned
    into a substitution so that terms can be compared *under* the condition."""

    def __init__(self, decisions=()):
        self.decisions = list(decisions)
        self.parent = {}
        self.const = {}
        self.atomc = {}      # opaque atoms (comparisons, 'any') whose truth this world has decided
        for term, d in self.decisions:
            atom, truth = _atom_truth(term, d)
            if atom is not None:
                self.atomc[atom] = 1 if truth else 0
            if atom is not None and atom[1] == 'any' and not truth:
                for m in atom[2]:
                    self._zero(m)
            elif atom is None:
                # a plain variable / xor decided directly
                self._zero(term if not d else b_not(term))
        self.infeasible = False
        for term, d in self.decisions:
            t2 = self.apply(term)
            if (t2 == 0 or t2 == 1) and bool(t2) != d:
                self.infeasible = True

    def _find(self, v):
        while v in self.parent:
            v = self.parent[v]
        return v

    def _zero(self, m):
        """record m == 0 when m has the shape x, x^1, x^y or x^y^1"""
        m = self.apply(m)
        if m == 0 or m == 1 or is_unknown(m):
            return
        if m[0] in ('I', 'A'):
            self.const[m] = 0
            return
        if m[0] != 'X':
            return
        ms = list(m[1])
        one = frozenset() in ms
        vs = [mm for mm in ms if mm]
        if any(len(mm) != 1 for mm in vs):
            return
        vs = [next(iter(mm)) for mm in vs]
        nc = [v for v in vs if v[0] == 'C']
        if len(vs) == 1:
            if not nc:
                self.const[vs[0]] = 1 if one else 0
        elif len(vs) == 2 and not one:
            if len(nc) == 2:
                return
            if len(nc) == 1:
                # a memory/argument bit equal to an opaque comparison result: rewrite the bit into the atom
                other = [v for v in vs if v[0] != 'C'][0]
                self.parent[other] = nc[0]
            else:
                a, b = sorted(vs, key=repr)
                self.parent[b] = a

    def trivial(self):
        return not self.decisions

    def apply(self, t):
        if t == 0 or t == 1 or is_unknown(t):
            return t
        if not self.parent and not self.const and not self.atomc:
            return t
        if t[0] == 'C' and t in self.atomc:
            return self.atomc[t]
        if t[0] in ('I', 'A'):
            r = self._find(t)
            if r[0] == 'C':
                return r
            return self.const.get(r, r)
        if t[0] == 'C':
            if t[1] == 'any':
                t2 = make_any([self.apply(b) for b in t[2]])
            elif t[1] == 'add':
                l = norm(tuple(self.apply(b) for b in t[2]))
                r = norm(tuple(self.apply(b) for b in t[3]))
                if l == norm(t[2]) and r == norm(t[3]):
                    return t
                t2 = to_bits(v_add(l, r, t[4], cin=(t[6] if len(t) > 6 else 0)), t[4])[t[5]]
            elif t[1] == 'cmp':
                l = tuple(self.apply(b) for b in t[3]) if isinstance(t[3], tuple) else t[3]
                r = tuple(self.apply(b) for b in t[4]) if isinstance(t[4], tuple) else t[4]
                t2 = v_icmp(t[2], norm(l) if isinstance(l, tuple) else l, norm(r) if isinstance(r, tuple) else r, t[5])
            else:
                return t
            if isinstance(t2, tuple) and len(t2) == 1:
                t2 = t2[0]
            if isinstance(t2, tuple) and t2 and t2[0] == 'C' and t2 in self.atomc:
                return self.atomc[t2]
            return t2
        if t[0] == 'X':
            acc = 0
            for mono in t[1]:
                p = 1
                for v in mono:
                    p = b_and(p, self.apply(v))
                    if p == 0:
                        break
                acc = b_xor(acc, p)
            return acc
        return t

    def holds(self, env):
        for term, d in self.decisions:
            try:
                if bool(eval_term(term, env)) != d:
                    return False
            except ValueError:
                return False
        return True

    def complete(self, env):
        """extend an assignment of representatives to all merged variables"""
        out = dict(env)
        for v in list(self.parent):
            r = self._find(v)
            if r[0] == 'C':
                try:
                    out[v] = eval_atom(r, out)
                except ValueError:
                    out[v] = 0
                continue
            out[v] = self.const.get(r, env.get(r, 0))
        for v, c in self.const.items():
            out[v] = c
        return out

    def vars(self, acc):
        for term, d in self.decisions:
            term_vars(term, acc)            # the variables inside decided atoms still have to satisfy them
            term_vars(self.apply(term), acc)


def _atom_truth(term, d):
    if isinstance(term, tuple) and term and term[0] == 'C':
        return term, d
    if isinstance(term, tuple) and term and term[0] == 'X':
        ms = term[1]
        if len(ms) == 2 and frozenset() in ms:
            (other,) = [m for m in ms if m]
            if len(other) == 1:
                (v,) = other
                if v[0] == 'C':
                    return v, (not d)
    return None, d
