"""Parser for the subset of LLVM-14 textual IR that clang -O0 -g emits for
Open1722 (library units, generated harness units, example programs).

The result is a Module with named struct types, globals (with parsed constant
initialisers), function definitions (blocks of Instr) and declarations, the
datalayout facts the analyses need, and the debug-location table.

Types are tuples:
  ('i', bits) ('fl', bits) ('p', T) ('a', n, T) ('s', (T,..), packed)
  ('n', name) ('v',) ('f', ret, (params..), vararg) ('md',) ('lbl',)
  ('vec', n, T) ('opaque',)
Values are tuples:
  ('c', int) ('r', name) ('g', name) ('null',) ('undef',) ('zero',)
  ('agg', [(T, v)..]) ('str', bytes) ('fp', text)
  ('ce', op, ...)  constant expression
  ('md', text)
"""
import re

TOKEN_RE = re.compile(r'''
    (?P<ws>\s+)
  | (?P<str>c"(?:[^"\\]|\\[0-9A-Fa-f]{2}|\\\\)*")
  | (?P<local>%"[^"]*"|%[-\w.$]+)
  | (?P<glob>@"[^"]*"|@[-\w.$]+)
  | (?P<meta>![-\w.]*(?:\([^()]*(?:\([^()]*\)[^()]*)*\))?)
  | (?P<attrgrp>\#\d+)
  | (?P<num>-?\d+\.\d+(?:[eE][-+]?\d+)?|0x[0-9A-Fa-f]+|-?\d+)
  | (?P<word>[A-Za-z_][\w.]*)
  | (?P<dots>\.\.\.)
  | (?P<punct>[,()\[\]{}<>*=:])
  | (?P<q>"[^"]*")
''', re.X)


class ParseError(Exception):
    pass


def tokenize(s):
    out = []
    pos = 0
    n = len(s)
    while pos < n:
        m = TOKEN_RE.match(s, pos)
        if not m:
            if s[pos] == ';':
                break
            raise ParseError('cannot tokenize at %r' % s[pos:pos + 40])
        pos = m.end()
        k = m.lastgroup
        if k == 'ws':
            continue
        out.append((k, m.group(k)))
    return out


PARAM_ATTRS = {
    'noundef', 'zeroext', 'signext', 'nonnull', 'nocapture', 'readonly',
    'writeonly', 'readnone', 'immarg', 'inreg', 'noalias', 'returned',
    'nofree', 'nest', 'swiftself', 'swifterror', 'noundef'}
PARAM_ATTRS_ARG = {'align', 'dereferenceable', 'dereferenceable_or_null',
                   'byval', 'sret', 'byref', 'inalloca', 'preallocated',
                   'elementtype'}
CALL_PREFIX = {'tail', 'musttail', 'notail', 'fastcc', 'ccc', 'coldcc'}
FAST_MATH = {'fast', 'nnan', 'ninf', 'nsz', 'arcp', 'contract', 'afn', 'reassoc'}
CASTS = {'trunc', 'zext', 'sext', 'bitcast', 'ptrtoint', 'inttoptr',
         'fptrunc', 'fpext', 'fptoui', 'fptosi', 'uitofp', 'sitofp',
         'addrspacecast'}
BINOPS = {'add', 'sub', 'mul', 'udiv', 'sdiv', 'urem', 'srem', 'shl', 'lshr',
          'ashr', 'and', 'or', 'xor', 'fadd', 'fsub', 'fmul', 'fdiv', 'frem'}


class Instr(object):
    __slots__ = ('op', 'dest', 'ty', 'args', 'x', 'dbg', 'text', 'fn', 'bb', 'idx')

    def __init__(self, op, dest=None, ty=None, args=None, x=None, dbg=None, text=''):
        self.op = op
        self.dest = dest
        self.ty = ty
        self.args = args or []
        self.x = x or {}
        self.dbg = dbg
        self.text = text

    def __repr__(self):
        return '<%s>' % self.text.strip()


class Function(object):
    def __init__(self, name, ret, params, vararg, linkage, dbg):
        self.name = name
        self.ret = ret
        self.params = params      # list of (type, name, attrs)
        self.vararg = vararg
        self.linkage = linkage
        self.dbg = dbg
        self.blocks = {}          # label -> [Instr]
        self.order = []
        self.ret_attrs = ()

    def instrs(self):
        for b in self.order:
            for i in self.blocks[b]:
                yield i


class Global(object):
    def __init__(self, name, ty, init, const, linkage, align, dbg=None):
        self.name = name
        self.ty = ty
        self.init = init
        self.const = const
        self.linkage = linkage
        self.align = align
        self.dbg = dbg


class Module(object):
    def __init__(self):
        self.types = {}
        self.globals = {}
        self.functions = {}
        self.declares = {}
        self.datalayout = ''
        self.triple = ''
        self.big_endian = False
        self.ptr_bytes = 8
        self.md = {}              # id -> raw text
        self._loc_cache = {}
        self.source = ''

    # ---- layout ---------------------------------------------------------
    def resolve(self, t):
        while t[0] == 'n':
            if t[1] not in self.types:
                raise ParseError('unknown type %s' % t[1])
            t = self.types[t[1]]
        return t

    def alignof(self, t):
        t = self.resolve(t)
        k = t[0]
        if k == 'i':
            b = t[1]
            if b <= 8:
                return 1
            if b <= 16:
                return 2
            if b <= 32:
                return 4
            return 4 if self.i64_align4 else 8
        if k == 'fl':
            if t[1] == 32:
                return 4
            if t[1] == 64:
                return 4 if self.f64_align4 else 8
            return 16
        if k == 'p':
            return self.ptr_bytes
        if k == 'a':
            return self.alignof(t[2])
        if k == 's':
            if t[2]:
                return 1
            a = 1
            for e in t[1]:
                a = max(a, self.alignof(e))
            return a
        if k == 'vec':
            return min(16, self.sizeof(t))
        raise ParseError('alignof %r' % (t,))

    i64_align4 = False
    f64_align4 = False

    def sizeof(self, t):
        t = self.resolve(t)
        k = t[0]
        if k == 'i':
            return (t[1] + 7) // 8 if t[1] not in (1,) else 1
        if k == 'fl':
            return {32: 4, 64: 8, 80: 16, 128: 16, 16: 2}[t[1]]
        if k == 'p':
            return self.ptr_bytes
        if k == 'a':
            return t[1] * self.sizeof(t[2])
        if k == 's':
            off = 0
            for e in t[1]:
                if not t[2]:
                    a = self.alignof(e)
                    off = (off + a - 1) // a * a
                off += self.sizeof(e)
            if not t[2]:
                a = self.alignof(t)
                off = (off + a - 1) // a * a
            return off
        if k == 'vec':
            return t[1] * self.sizeof(t[2])
        if k == 'v':
            return 0
        if k == 'f':
            return 0
        raise ParseError('sizeof %r' % (t,))

    def field_offset(self, t, idx):
        t = self.resolve(t)
        assert t[0] == 's'
        off = 0
        for j, e in enumerate(t[1]):
            if not t[2]:
                a = self.alignof(e)
                off = (off + a - 1) // a * a
            if j == idx:
                return off, e
            off += self.sizeof(e)
        raise ParseError('field index %d out of range' % idx)

    # ---- debug info -----------------------------------------------------
    def loc(self, dbg):
        """!N of a DILocation -> (file, line, function) or None."""
        if dbg is None:
            return None
        if dbg in self._loc_cache:
            return self._loc_cache[dbg]
        txt = self.md.get(dbg, '')
        res = None
        m = re.search(r'DILocation\(line: (\d+)(?:, column: \d+)?, scope: (!\d+)', txt)
        if m:
            line = int(m.group(1))
            scope = m.group(2)
            fn, fil = self._scope(scope)
            res = (fil, line, fn)
        self._loc_cache[dbg] = res
        return res

    def _scope(self, sid, depth=0):
        txt = self.md.get(sid, '')
        fn = None
        fil = None
        if 'DISubprogram' in txt:
            m = re.search(r'name: "([^"]*)"', txt)
            fn = m.group(1) if m else None
        mf = re.search(r'file: (!\d+)', txt)
        if mf:
            ft = self.md.get(mf.group(1), '')
            m2 = re.search(r'filename: "([^"]*)"', ft)
            if m2:
                fil = m2.group(1)
        if fn is None and depth < 50:
            ms = re.search(r'scope: (!\d+)', txt)
            if ms:
                f2, fil2 = self._scope(ms.group(1), depth + 1)
                fn = f2
                fil = fil or fil2
        return fn, fil

    def fn_loc(self, fname):
        f = self.functions.get(fname)
        if f is None or f.dbg is None:
            return None
        txt = self.md.get(f.dbg, '')
        m = re.search(r'line: (\d+)', txt)
        fn, fil = self._scope(f.dbg)
        return (fil, int(m.group(1)) if m else 0, fname)


class _P(object):
    """Token cursor with the recursive-descent pieces."""

    def __init__(self, toks, text=''):
        self.t = toks
        self.i = 0
        self.text = text

    def peek(self, k=0):
        j = self.i + k
        return self.t[j] if j < len(self.t) else (None, None)

    def next(self):
        tok = self.peek()
        self.i += 1
        return tok

    def accept(self, val):
        if self.peek()[1] == val:
            self.i += 1
            return True
        return False

    def expect(self, val):
        tok = self.next()
        if tok[1] != val:
            raise ParseError('expected %r got %r in: %s' % (val, tok[1], self.text))

    def at_end(self):
        return self.i >= len(self.t)

    # ---- types ----------------------------------------------------------
    def type(self):
        k, v = self.next()
        if k == 'word':
            if v[0] == 'i' and v[1:].isdigit():
                t = ('i', int(v[1:]))
            elif v == 'void':
                t = ('v',)
            elif v == 'float':
                t = ('fl', 32)
            elif v == 'double':
                t = ('fl', 64)
            elif v == 'half':
                t = ('fl', 16)
            elif v == 'x86_fp80':
                t = ('fl', 80)
            elif v in ('fp128', 'ppc_fp128'):
                t = ('fl', 128)
            elif v == 'metadata':
                t = ('md',)
            elif v == 'label':
                t = ('lbl',)
            elif v == 'opaque':
                t = ('opaque',)
            elif v == 'ptr':
                t = ('p', ('i', 8))
            elif v == 'token':
                t = ('md',)
            else:
                raise ParseError('unknown type word %r in: %s' % (v, self.text))
        elif k == 'local':
            t = ('n', v[1:].strip('"'))
        elif v == '[':
            n = int(self.next()[1])
            self.expect('x')
            e = self.type()
            self.expect(']')
            t = ('a', n, e)
        elif v == '{':
            t = ('s', tuple(self._type_list('}')), False)
        elif v == '<':
            if self.peek()[1] == '{':
                self.next()
                el = tuple(self._type_list('}'))
                self.expect('>')
                t = ('s', el, True)
            else:
                n = int(self.next()[1])
                self.expect('x')
                e = self.type()
                self.expect('>')
                t = ('vec', n, e)
        else:
            raise ParseError('bad type start %r in: %s' % (v, self.text))
        # suffixes
        while True:
            pv = self.peek()[1]
            if pv == '*':
                self.next()
                t = ('p', t)
            elif pv == 'addrspace':
                self.next()
                self.expect('(')
                self.next()
                self.expect(')')
            elif pv == '(':
                # function type
                self.next()
                params = []
                vararg = False
                while not self.accept(')'):
                    if self.peek()[0] == 'dots':
                        self.next()
                        vararg = True
                    else:
                        params.append(self.type())
                    self.accept(',')
                t = ('f', t, tuple(params), vararg)
            else:
                break
        return t

    def _type_list(self, close):
        out = []
        if self.accept(close):
            return out
        while True:
            out.append(self.type())
            if self.accept(close):
                return out
            self.expect(',')

    # ---- values ---------------------------------------------------------
    def skip_param_attrs(self):
        attrs = []
        while True:
            k, v = self.peek()
            if k == 'word' and v in PARAM_ATTRS:
                self.next()
                attrs.append(v)
            elif k == 'word' and v in PARAM_ATTRS_ARG:
                self.next()
                if self.accept('('):
                    depth = 1
                    while depth:
                        tv = self.next()[1]
                        if tv == '(':
                            depth += 1
                        elif tv == ')':
                            depth -= 1
                    attrs.append(v)
                else:
                    n = self.next()[1]
                    attrs.append((v, int(n)))
            else:
                return attrs

    def typed_value(self):
        t = self.type()
        self.skip_param_attrs()
        v = self.value(t)
        return (t, v)

    def value(self, t=None):
        k, v = self.next()
        if k == 'local':
            return ('r', v[1:].strip('"'))
        if k == 'glob':
            return ('g', v[1:].strip('"'))
        if k == 'num':
            if v.startswith('0x') or '.' in v or 'e' in v.lower():
                if t is not None and t[0] == 'i':
                    return ('c', int(v, 16))
                return ('fp', v)
            return ('c', int(v))
        if k == 'str':
            return ('str', _unescape(v[2:-1]))
        if k == 'meta':
            return ('md', v)
        if k == 'word':
            if v == 'true':
                return ('c', 1)
            if v == 'false':
                return ('c', 0)
            if v == 'null':
                return ('null',)
            if v in ('undef', 'poison'):
                return ('undef',)
            if v == 'zeroinitializer':
                return ('zero',)
            if v == 'none':
                return ('undef',)
            if v == 'getelementptr':
                inb = self.accept('inbounds')
                self.expect('(')
                bt = self.type()
                self.expect(',')
                ops = [self.typed_value()]
                while self.accept(','):
                    self.accept('inrange')
                    ops.append(self.typed_value())
                self.expect(')')
                return ('ce', 'getelementptr', bt, ops)
            if v in CASTS:
                self.expect('(')
                tv = self.typed_value()
                self.expect('to')
                tt = self.type()
                self.expect(')')
                return ('ce', v, tv, tt)
            if v in BINOPS:
                while self.peek()[1] in ('nuw', 'nsw', 'exact'):
                    self.next()
                self.expect('(')
                a = self.typed_value()
                self.expect(',')
                b = self.typed_value()
                self.expect(')')
                return ('ce', v, a, b)
            if v in ('icmp', 'fcmp'):
                pred = self.next()[1]
                self.expect('(')
                a = self.typed_value()
                self.expect(',')
                b = self.typed_value()
                self.expect(')')
                return ('ce', v, pred, a, b)
            if v == 'select':
                self.expect('(')
                a = self.typed_value()
                self.expect(',')
                b = self.typed_value()
                self.expect(',')
                c = self.typed_value()
                self.expect(')')
                return ('ce', 'select', a, b, c)
            if v == 'blockaddress' or v == 'dso_local_equivalent':
                depth = 0
                while True:
                    tv = self.next()[1]
                    if tv == '(':
                        depth += 1
                    elif tv == ')':
                        depth -= 1
                        if depth == 0:
                            break
                return ('undef',)
            raise ParseError('unknown value word %r in: %s' % (v, self.text))
        if v == '{' or v == '[':
            close = '}' if v == '{' else ']'
            items = []
            if not self.accept(close):
                while True:
                    items.append(self.typed_value())
                    if self.accept(close):
                        break
                    self.expect(',')
            return ('agg', items)
        if v == '<':
            if self.accept('{'):
                items = []
                if not self.accept('}'):
                    while True:
                        items.append(self.typed_value())
                        if self.accept('}'):
                            break
                        self.expect(',')
                self.expect('>')
                return ('agg', items)
            items = []
            while True:
                items.append(self.typed_value())
                if self.accept('>'):
                    break
                self.expect(',')
            return ('agg', items)
        raise ParseError('bad value %r in: %s' % (v, self.text))


def _unescape(s):
    out = bytearray()
    i = 0
    while i < len(s):
        c = s[i]
        if c == '\\':
            if s[i + 1] == '\\':
                out.append(92)
                i += 2
            else:
                out.append(int(s[i + 1:i + 3], 16))
                i += 3
        else:
            out.append(ord(c))
            i += 1
    return bytes(out)


LINKAGE = {'private', 'internal', 'available_externally', 'linkonce', 'weak',
           'common', 'appending', 'extern_weak', 'linkonce_odr', 'weak_odr',
           'external', 'dso_local', 'dso_preemptable', 'hidden', 'protected',
           'default', 'unnamed_addr', 'local_unnamed_addr', 'thread_local',
           'externally_initialized', 'dllimport', 'dllexport'}


def parse_module(text, source=''):
    m = Module()
    m.source = source
    lines = text.split('\n')
    i = 0
    n = len(lines)
    cur = None
    curblock = None
    while i < n:
        line = lines[i]
        i += 1
        s = line.strip()
        if not s or s[0] == ';':
            continue
        if cur is not None:
            if s == '}':
                cur = None
                curblock = None
                continue
            mlabel = re.match(r'^([-\w.$]+|"[^"]*"):', s)
            if mlabel and not line.startswith('  '):
                curblock = mlabel.group(1).strip('"')
                if len(cur.order) == 1 and not cur.blocks[cur.entry]:
                    del cur.blocks[cur.entry]
                    cur.order = []
                    cur.entry = curblock
                cur.blocks[curblock] = []
                cur.order.append(curblock)
                continue
            # join multi-line switch
            if s.startswith('switch ') and not s.rstrip().endswith(']') and ']' not in s:
                while i < n:
                    s += ' ' + lines[i].strip()
                    i += 1
                    if ']' in lines[i - 1]:
                        break
            try:
                ins = parse_instr(s)
            except ParseError:
                # keep going: the instruction only matters if an analysis actually reaches it
                mdst = re.match(r'^(%"[^"]*"|%[-\w.$]+) = ', s)
                ins = Instr('unparsed', mdst.group(1)[1:].strip('"') if mdst else None, text=s)
                mdbg = re.search(r'!dbg (!\d+)', s)
                ins.dbg = mdbg.group(1) if mdbg else None
                # terminators must keep the CFG intact
                if re.match(r'^(br|switch|ret|unreachable|indirectbr|invoke|resume|callbr)\b', s):
                    raise
            ins.fn = cur.name
            ins.bb = curblock
            ins.idx = len(cur.blocks[curblock])
            cur.blocks[curblock].append(ins)
            continue
        if s.startswith('target datalayout'):
            m.datalayout = s.split('"')[1]
            parts = m.datalayout.split('-')
            m.big_endian = parts[0] == 'E'
            m.ptr_bytes = 8
            for p in parts:
                mp = re.match(r'^p:(\d+):', p)
                if mp:
                    m.ptr_bytes = int(mp.group(1)) // 8
                mi = re.match(r'^i64:(\d+)', p)
                if mi:
                    m.i64_align4 = int(mi.group(1)) == 32
            if not any(re.match(r'^i64:', p) for p in parts):
                m.i64_align4 = True         # LLVM's default data layout: i64:32:64 (i386 relies on it)
            m.f64_align4 = any(re.match(r'^f64:32', p) for p in parts)
            continue
        if s.startswith('target triple'):
            m.triple = s.split('"')[1]
            continue
        if s.startswith('source_filename') or s.startswith('attributes ') or \
           s.startswith('module asm'):
            continue
        if s[0] == '!':
            mm = re.match(r'^(![-\w.]+) = (.*)$', s)
            if mm:
                m.md[mm.group(1)] = mm.group(2)
            continue
        if s[0] == '%':
            mm = re.match(r'^(%"[^"]*"|%[-\w.$]+) = type (.*)$', s)
            if mm:
                p = _P(tokenize(mm.group(2)), s)
                m.types[mm.group(1)[1:].strip('"')] = p.type()
                continue
        if s[0] == '@':
            try:
                g = parse_global(s)
            except ParseError:
                mg = re.match(r'^(@"[^"]*"|@[-\w.$]+) = (.*)$', s)
                if not mg:
                    raise
                body = mg.group(2)
                isconst = re.search(r'\bconstant\b', body.split('{')[0].split('[')[0]) is not None
                g = Global(mg.group(1)[1:].strip('"'), ('opaque',), None, isconst, (), None)
            if g is not None:
                m.globals[g.name] = g
            continue
        if s.startswith('define '):
            cur = parse_define(s)
            m.functions[cur.name] = cur
            curblock = cur.entry
            # the entry block has an implicit label: number of params
            continue
        if s.startswith('declare '):
            d = parse_define(s, decl=True)
            m.declares[d.name] = d
            continue
        if s.startswith('$') or s.startswith('uselistorder'):
            continue
        raise ParseError('unrecognised top-level line: %s' % s)
    # name implicit entry blocks
    for f in m.functions.values():
        pass
    return m


def _split_dbg(s):
    """Strip trailing ', !dbg !N' and other metadata attachments; return
    (text, dbg)."""
    dbg = None
    mm = re.search(r',\s*!dbg (!\d+)', s)
    if mm:
        dbg = mm.group(1)
    # cut at first ', !name' attachment
    mm2 = re.search(r',\s*![a-zA-Z_.]+ !', s)
    if mm2:
        s = s[:mm2.start()]
    return s, dbg


def parse_global(s):
    s0 = s
    mm = re.match(r'^(@"[^"]*"|@[-\w.$]+) = (.*)$', s)
    if not mm:
        raise ParseError('bad global: ' + s)
    name = mm.group(1)[1:].strip('"')
    rest = mm.group(2)
    dbg = None
    md = re.search(r',\s*!dbg (!\d+)', rest)
    if md:
        dbg = md.group(1)
        rest = rest[:md.start()] + rest[md.end():]
    toks = tokenize(rest)
    p = _P(toks, s0)
    linkage = []
    while p.peek()[0] == 'word' and p.peek()[1] in LINKAGE:
        w = p.next()[1]
        linkage.append(w)
        if w == 'thread_local' and p.peek()[1] == '(':
            while p.next()[1] != ')':
                pass
    if p.peek()[1] == 'addrspace':
        p.next(); p.expect('('); p.next(); p.expect(')')
    if p.peek()[1] == 'alias' or p.peek()[1] == 'ifunc':
        return None
    kind = p.next()[1]
    if kind not in ('global', 'constant'):
        raise ParseError('bad global kind %r: %s' % (kind, s0))
    ty = p.type()
    init = None
    if not p.at_end() and p.peek()[1] != ',':
        init = p.value(ty)
    align = None
    while not p.at_end():
        if p.accept(','):
            continue
        if p.accept('align'):
            align = int(p.next()[1])
            continue
        p.next()
    return Global(name, ty, init, kind == 'constant', tuple(linkage), align, dbg)


def parse_define(s, decl=False):
    s0 = s
    dbg = None
    md = re.search(r'!dbg (!\d+)', s)
    if md:
        dbg = md.group(1)
    s = re.sub(r'\s*!dbg !\d+', '', s)
    s = s.rstrip()
    if s.endswith('{'):
        s = s[:-1]
    toks = tokenize(s)
    p = _P(toks, s0)
    p.next()  # define / declare
    linkage = []
    while p.peek()[0] == 'word' and (p.peek()[1] in LINKAGE or p.peek()[1] in CALL_PREFIX):
        linkage.append(p.next()[1])
    ret_attrs = p.skip_param_attrs()
    ret = p.type_noparen()
    name = p.next()[1][1:].strip('"')
    p.expect('(')
    params = []
    vararg = False
    while not p.accept(')'):
        if p.peek()[0] == 'dots':
            p.next()
            vararg = True
        else:
            t = p.type()
            attrs = p.skip_param_attrs()
            pn = None
            if p.peek()[0] == 'local':
                pn = p.next()[1][1:].strip('"')
            params.append((t, pn, attrs))
        p.accept(',')
    f = Function(name, ret, params, vararg, tuple(linkage), dbg)
    f.ret_attrs = tuple(ret_attrs)
    # unnamed params get %0.. ; entry block label is next number
    k = 0
    newp = []
    for (t, pn, attrs) in params:
        if pn is None:
            pn = str(k)
            k += 1
        elif pn.isdigit():
            k = int(pn) + 1          # unnamed values (parameters, then the entry block) are numbered consecutively
        newp.append((t, pn, attrs))
    f.params = newp
    if not decl:
        entry = str(k)
        f.blocks[entry] = []
        f.order.append(entry)
        f.entry = entry
    return f


def _type_noparen(self):
    """A type not followed by a function-type suffix (used for return types
    in define/call where '(' starts the argument list only if what follows the
    type is not a callee)."""
    # parse base type then only pointer suffixes; a '(' here would be a
    # function type only if followed eventually by ')*'
    save = self.i
    t = self.type()
    # self.type() may have consumed '(...)' as a function type if the callee
    # came first; detect: next token should be the callee (glob/local).
    k, v = self.peek()
    if k in ('glob', 'local'):
        return t
    # otherwise re-parse without function suffix
    self.i = save
    return self._type_base_ptr()


def _type_base_ptr(self):
    # replicate type() without the '(' suffix
    start = self.i
    # temporarily parse by slicing tokens up to the first '(' at depth 0
    depth = 0
    j = self.i
    while j < len(self.t):
        v = self.t[j][1]
        if v in ('[', '{', '<'):
            depth += 1
        elif v in (']', '}', '>'):
            depth -= 1
        elif v == '(' and depth == 0:
            break
        elif self.t[j][0] in ('glob',) and depth == 0:
            break
        j += 1
    sub = _P(self.t[start:j], self.text)
    t = sub.type()
    self.i = start + sub.i
    return t


_P.type_noparen = _type_noparen
_P._type_base_ptr = _type_base_ptr


def parse_instr(s):
    text = s
    if '@llvm.dbg.' in s:
        return Instr('dbg', text=text)
    s, dbg = _split_dbg(s)
    toks = tokenize(s)
    p = _P(toks, text)
    dest = None
    if p.peek()[0] == 'local' and p.peek(1)[1] == '=':
        dest = p.next()[1][1:].strip('"')
        p.next()
    k, op = p.next()
    ins = Instr(op, dest, dbg=dbg, text=text)
    try:
        _parse_body(p, ins, op)
    except ParseError:
        raise
    except Exception as e:  # pragma: no cover
        raise ParseError('%s while parsing: %s' % (e, text))
    return ins


def _parse_body(p, ins, op):
    if op in CALL_PREFIX or op == 'call':
        while op != 'call':
            op = p.next()[1]
        ins.op = 'call'
        while p.peek()[0] == 'word' and (p.peek()[1] in CALL_PREFIX or p.peek()[1] in FAST_MATH):
            p.next()
        p.skip_param_attrs()
        rt = p.type_noparen()
        callee = p.value()
        if rt[0] == 'f':
            fty = rt
            rt = rt[1]
        elif rt[0] == 'p' and rt[1][0] == 'f':
            fty = rt[1]
            rt = fty[1]
        else:
            fty = None
        p.expect('(')
        args = []
        while not p.accept(')'):
            args.append(p.typed_value())
            p.accept(',')
        ins.ty = rt
        ins.args = args
        ins.x = {'callee': callee, 'fty': fty}
        return
    if op == 'alloca':
        p.accept('inalloca')
        t = p.type()
        cnt = None
        align = None
        while p.accept(','):
            if p.accept('align'):
                align = int(p.next()[1])
            elif p.peek()[1] == 'addrspace':
                p.next(); p.expect('('); p.next(); p.expect(')')
            else:
                cnt = p.typed_value()
        ins.ty = ('p', t)
        ins.x = {'aty': t, 'count': cnt, 'align': align}
        return
    if op == 'load':
        vol = False
        while p.peek()[1] in ('volatile', 'atomic'):
            vol = True
            p.next()
        t = p.type()
        p.expect(',')
        ptr = p.typed_value()
        align = None
        while p.accept(','):
            if p.accept('align'):
                align = int(p.next()[1])
            else:
                p.next()
        ins.ty = t
        ins.args = [ptr]
        ins.x = {'align': align, 'volatile': vol}
        return
    if op == 'store':
        vol = False
        while p.peek()[1] in ('volatile', 'atomic'):
            vol = True
            p.next()
        v = p.typed_value()
        p.expect(',')
        ptr = p.typed_value()
        align = None
        while p.accept(','):
            if p.accept('align'):
                align = int(p.next()[1])
            else:
                p.next()
        ins.args = [v, ptr]
        ins.x = {'align': align, 'volatile': vol}
        return
    if op == 'getelementptr':
        inb = p.accept('inbounds')
        bt = p.type()
        p.expect(',')
        base = p.typed_value()
        idx = []
        while p.accept(','):
            idx.append(p.typed_value())
        ins.args = [base] + idx
        ins.x = {'bty': bt, 'inbounds': inb}
        ins.ty = None  # computed by users when needed
        return
    if op in BINOPS:
        flags = []
        while p.peek()[1] in ('nuw', 'nsw', 'exact') or p.peek()[1] in FAST_MATH:
            flags.append(p.next()[1])
        t = p.type()
        a = p.value(t)
        p.expect(',')
        b = p.value(t)
        ins.ty = t
        ins.args = [(t, a), (t, b)]
        ins.x = {'flags': flags}
        return
    if op in ('icmp', 'fcmp'):
        while p.peek()[1] in FAST_MATH:
            p.next()
        pred = p.next()[1]
        t = p.type()
        a = p.value(t)
        p.expect(',')
        b = p.value(t)
        ins.ty = ('i', 1)
        ins.args = [(t, a), (t, b)]
        ins.x = {'pred': pred}
        return
    if op in CASTS:
        tv = p.typed_value()
        p.expect('to')
        tt = p.type()
        ins.ty = tt
        ins.args = [tv]
        return
    if op == 'br':
        if p.peek()[1] == 'label':
            p.next()
            ins.x = {'targets': [p.next()[1][1:].strip('"')]}
            return
        c = p.typed_value()
        p.expect(',')
        p.expect('label')
        a = p.next()[1][1:].strip('"')
        p.expect(',')
        p.expect('label')
        b = p.next()[1][1:].strip('"')
        ins.args = [c]
        ins.x = {'targets': [a, b]}
        return
    if op == 'switch':
        v = p.typed_value()
        p.expect(',')
        p.expect('label')
        default = p.next()[1][1:].strip('"')
        p.expect('[')
        cases = []
        while not p.accept(']'):
            cv = p.typed_value()
            p.expect(',')
            p.expect('label')
            lbl = p.next()[1][1:].strip('"')
            cases.append((cv[1][1], lbl))
        ins.args = [v]
        ins.x = {'default': default, 'cases': cases}
        return
    if op == 'phi':
        while p.peek()[1] in FAST_MATH:
            p.next()
        t = p.type()
        inc = []
        while True:
            p.expect('[')
            v = p.value(t)
            p.expect(',')
            lbl = p.next()[1][1:].strip('"')
            p.expect(']')
            inc.append(((t, v), lbl))
            if not p.accept(','):
                break
        ins.ty = t
        ins.x = {'incoming': inc}
        return
    if op == 'select':
        while p.peek()[1] in FAST_MATH:
            p.next()
        c = p.typed_value()
        p.expect(',')
        a = p.typed_value()
        p.expect(',')
        b = p.typed_value()
        ins.ty = a[0]
        ins.args = [c, a, b]
        return
    if op == 'ret':
        if p.peek()[1] == 'void':
            ins.args = []
        else:
            ins.args = [p.typed_value()]
        return
    if op == 'unreachable':
        return
    if op == 'fneg':
        while p.peek()[1] in FAST_MATH:
            p.next()
        tv = p.typed_value()
        ins.ty = tv[0]
        ins.args = [tv]
        return
    if op in ('extractvalue', 'insertvalue', 'extractelement', 'insertelement',
              'shufflevector', 'va_arg', 'freeze', 'fence', 'cmpxchg',
              'atomicrmw', 'invoke', 'resume', 'landingpad', 'indirectbr',
              'callbr'):
        # generic: collect typed values where possible
        ins.x = {'generic': True, 'indices': []}
        args = []
        try:
            while not p.at_end():
                if p.peek()[0] == 'num':
                    try:
                        ins.x['indices'].append(int(p.peek()[1]))
                    except (TypeError, ValueError):
                        pass
                    p.next()
                    continue
                if p.peek()[1] in (',',):
                    p.next()
                    continue
                args.append(p.typed_value())
        except ParseError:
            pass
        ins.args = args
        if op == 'freeze' and args:
            ins.ty = args[0][0]
        return
    raise ParseError('unknown instruction %r: %s' % (op, p.text))


def gep_result_type(mod, ins):
    """Pointee type of a getelementptr result."""
    t = ins.x['bty']
    idx = ins.args[2:]
    for (it, iv) in idx:
        rt = mod.resolve(t)
        if rt[0] == 's':
            t = rt[1][iv[1]]
        elif rt[0] in ('a', 'vec'):
            t = rt[2]
        else:
            raise ParseError('gep into scalar')
    return ('p', t)


if __name__ == '__main__':
    import sys
    for fn in sys.argv[1:]:
        mod = parse_module(open(fn).read(), fn)
        ni = sum(len(b) for f in mod.functions.values() for b in f.blocks.values())
        print(fn, 'types', len(mod.types), 'globals', len(mod.globals),
              'functions', len(mod.functions), 'declares', len(mod.declares),
              'instrs', ni, 'BE' if mod.big_endian else 'LE', mod.ptr_bytes)
