"""Wire-taint analysis over the IR of an example program (DESIGN.md 4.18).

Input: the program's units compiled by clang-14 (-O0, optnone disabled), linked
and put into SSA form by `opt -passes=mem2reg`.  Library functions are external
calls recognised by name (Avtp_* / avtp_*).

Facts computed (context-insensitive fixpoint over the module):
  origin(v)   for pointer values: set of (object, constant offset | None)
  wire        objects that receive datagram bytes (buffer argument of recv*)
  taint(v)    for scalar values: set of source labels (the library getter that
              produced the value, 'wire-bytes' for direct loads from a wire
              object, labels of tainted local objects)
Sinks and sanitisers are described in findings()."""
import re

from .irparse import gep_result_type

RECV = {'recv': (1, 2), 'recvfrom': (1, 2), '__recv_chk': (1, 2)}
PRINTF = {'printf': 0, 'fprintf': 1, 'sprintf': 1, 'snprintf': 2, 'dprintf': 1}
MEMFN = {'memcpy': (0, 1, 2), 'memmove': (0, 1, 2), 'memset': (0, None, 2), 'strncpy': (0, 1, 2),
         '__memcpy_chk': (0, 1, 2), '__memset_chk': (0, None, 2), '__memmove_chk': (0, 1, 2), '__strncpy_chk': (0, 1, 2)}
ALLOC = {'malloc': 0, 'alloca': 0, 'calloc': None}
BOUND_TRUE = {'ult', 'ule', 'slt', 'sle', 'eq'}
BOUND_FALSE = {'ugt', 'uge', 'sgt', 'sge', 'ne'}
SWAP = {'ult': 'ugt', 'ule': 'uge', 'slt': 'sgt', 'sle': 'sge', 'ugt': 'ult', 'uge': 'ule', 'sgt': 'slt', 'sge': 'sle',
        'eq': 'eq', 'ne': 'ne'}


def callee_name(ins):
    c = ins.x['callee']
    if c[0] == 'g':
        return c[1]
    if c[0] == 'ce' and c[1] == 'bitcast' and c[2][1][0] == 'g':
        return c[2][1][1]
    return None


def mem_intrinsic(name):
    if name is None:
        return None
    if name.startswith('llvm.memcpy') or name.startswith('llvm.memmove'):
        return (0, 1, 2)
    if name.startswith('llvm.memset'):
        return (0, None, 2)
    return MEMFN.get(name)


def is_lib(name):
    return name is not None and (name.startswith('Avtp_') or name.startswith('avtp_'))


class FnInfo(object):
    def __init__(self, mod, fn):
        self.fn = fn
        self.succ = {}
        self.pred = {b: [] for b in fn.order}
        for b in fn.order:
            term = fn.blocks[b][-1] if fn.blocks[b] else None
            s = []
            if term is not None:
                if term.op == 'br':
                    s = list(term.x['targets'])
                elif term.op == 'switch':
                    s = [term.x['default']] + [l for _, l in term.x['cases']]
            self.succ[b] = s
            for t in s:
                self.pred.setdefault(t, []).append(b)
        self.dom = self._dominators()
        self.defs = {}
        for ins in fn.instrs():
            if ins.dest is not None:
                self.defs[ins.dest] = ins

    def _dominators(self):
        fn = self.fn
        entry = fn.entry
        allb = set(fn.order)
        dom = {b: set(allb) for b in fn.order}
        dom[entry] = {entry}
        changed = True
        while changed:
            changed = False
            for b in fn.order:
                if b == entry:
                    continue
                ps = [dom[p] for p in self.pred.get(b, []) if p in dom]
                new = set.intersection(*ps) if ps else set()
                new = new | {b}
                if new != dom[b]:
                    dom[b] = new
                    changed = True
        return dom

    def dominates(self, a, b):
        return a in self.dom.get(b, ())


class Analysis(object):
    def __init__(self, mod):
        self.mod = mod
        self.info = {n: FnInfo(mod, f) for n, f in mod.functions.items()}
        self.origin = {}      # (fn, reg) -> set of (obj, off)
        self.taint = {}       # (fn, reg) -> set of labels
        self.obj_taint = {}   # obj -> set of labels
        self.obj_size = {}
        self.obj_stored = {}  # obj -> number of plain stores into it
        self.wire = set()
        self.ret_origin = {}  # fn -> set
        self.ret_taint = {}
        self._locguards = {}
        self._inherited = {}
        self._writes = {}
        self._reach = {}
        self.solve()

    # ---- helpers --------------------------------------------------------
    def const_int(self, tv):
        t, v = tv
        if v[0] == 'c':
            return v[1]
        return None

    def origin_of(self, fname, tv):
        t, v = tv
        if v[0] == 'r':
            return self.origin.get((fname, v[1]), set())
        if v[0] == 'g':
            if v[1] in self.mod.globals:
                g = self.mod.globals[v[1]]
                self.obj_size.setdefault('@' + v[1], self.mod.sizeof(g.ty))
                return {('@' + v[1], 0)}
            return set()
        if v[0] == 'ce':
            if v[1] in ('bitcast', 'addrspacecast'):
                return self.origin_of(fname, v[2])
            if v[1] == 'getelementptr':
                base = self.origin_of(fname, v[3][0])
                off = self.gep_const_offset(v[2], v[3][1:])
                return set((o, (b + off) if (b is not None and off is not None) else None) for (o, b) in base)
        return set()

    def gep_const_offset(self, bty, idx):
        mod = self.mod
        off = 0
        t = bty
        first = True
        for (it, iv) in idx:
            if iv[0] != 'c':
                return None
            c = iv[1]
            w = mod.resolve(it)[1] if mod.resolve(it)[0] == 'i' else 64
            if c >> (w - 1):
                c -= 1 << w
            if first:
                off += c * mod.sizeof(t)
                first = False
                continue
            rt = mod.resolve(t)
            if rt[0] == 's':
                fo, et = mod.field_offset(rt, c)
                off += fo
                t = et
            elif rt[0] in ('a', 'vec'):
                off += c * mod.sizeof(rt[2])
                t = rt[2]
            else:
                return None
        return off

    def taint_of(self, fname, tv):
        t, v = tv
        if v[0] == 'r':
            return self.taint.get((fname, v[1]), set())
        return set()

    def _upd(self, table, key, new):
        old = table.get(key)
        if old is None:
            if new:
                table[key] = set(new)
                return True
            return False
        if not new <= old:
            old |= new
            return True
        return False

    # ---- fixpoint ---------------------------------------------------------
    def solve(self):
        mod = self.mod
        changed = True
        rounds = 0
        while changed and rounds < 60:
            changed = False
            rounds += 1
            for fname, fn in mod.functions.items():
                for ins in fn.instrs():
                    if self.step(fname, fn, ins):
                        changed = True

    def step(self, fname, fn, ins):
        mod = self.mod
        op = ins.op
        d = ins.dest
        ch = False
        if op == 'alloca':
            obj = '%s:%%%s' % (fname, d)
            cnt = 1
            if ins.x['count'] is not None:
                cnt = self.const_int(ins.x['count'])
            self.obj_size[obj] = mod.sizeof(ins.x['aty']) * cnt if cnt is not None else None
            return self._upd(self.origin, (fname, d), {(obj, 0)})
        if op in ('bitcast', 'addrspacecast', 'inttoptr', 'ptrtoint', 'zext', 'sext', 'trunc', 'freeze',
                  'fptoui', 'fptosi', 'uitofp', 'sitofp', 'fpext', 'fptrunc'):
            ch |= self._upd(self.origin, (fname, d), self.origin_of(fname, ins.args[0]))
            ch |= self._upd(self.taint, (fname, d), self.taint_of(fname, ins.args[0]))
            return ch
        if op == 'getelementptr':
            base = self.origin_of(fname, ins.args[0])
            off = self.gep_const_offset(ins.x['bty'], ins.args[1:])
            new = set((o, (b + off) if (b is not None and off is not None) else None) for (o, b) in base)
            return self._upd(self.origin, (fname, d), new)
        if op in ('add', 'sub', 'mul', 'udiv', 'sdiv', 'urem', 'srem', 'shl', 'lshr', 'ashr', 'and', 'or', 'xor',
                  'fadd', 'fsub', 'fmul', 'fdiv'):
            new = self.taint_of(fname, ins.args[0]) | self.taint_of(fname, ins.args[1])
            # masking with a constant bounds the value but keeps the taint (a bound is found by the guard search)
            return self._upd(self.taint, (fname, d), new)
        if op in ('phi', 'select'):
            vals = [tv for (tv, _) in ins.x['incoming']] if op == 'phi' else ins.args[1:]
            o = set()
            t = set()
            for tv in vals:
                o |= self.origin_of(fname, tv)
                t |= self.taint_of(fname, tv)
            ch |= self._upd(self.origin, (fname, d), o)
            ch |= self._upd(self.taint, (fname, d), t)
            return ch
        if op == 'load':
            src = self.origin_of(fname, ins.args[0])
            t = set()
            o = set()
            for (obj, off) in src:
                if obj in self.wire:
                    t.add('wire-bytes')
                t |= self.obj_taint.get(obj, set())
                o |= self.origin.get(('*', obj), set())
            ch |= self._upd(self.taint, (fname, d), t)
            if mod.resolve(ins.ty)[0] == 'p':
                ch |= self._upd(self.origin, (fname, d), o)
            return ch
        if op == 'store':
            v, p = ins.args
            dst = self.origin_of(fname, p)
            tv = self.taint_of(fname, v)
            for (obj, off) in dst:
                self.obj_stored[obj] = self.obj_stored.get(obj, 0) | 1
                if tv:
                    ch |= self._upd(self.obj_taint, obj, tv)
                if mod.resolve(v[0])[0] == 'p':
                    ch |= self._upd(self.origin, ('*', obj), self.origin_of(fname, v))
            return ch
        if op == 'call':
            return self.step_call(fname, fn, ins)
        if op == 'ret' and ins.args:
            ch |= self._upd(self.ret_origin, fname, self.origin_of(fname, ins.args[0]))
            ch |= self._upd(self.ret_taint, fname, self.taint_of(fname, ins.args[0]))
            return ch
        return False

    def step_call(self, fname, fn, ins):
        mod = self.mod
        name = callee_name(ins)
        d = ins.dest
        ch = False
        if name is None:
            return False
        if name in mod.functions:
            cal = mod.functions[name]
            for k, (pt, pn, _) in enumerate(cal.params):
                if k < len(ins.args):
                    ch |= self._upd(self.origin, (name, pn), self.origin_of(fname, ins.args[k]))
                    ch |= self._upd(self.taint, (name, pn), self.taint_of(fname, ins.args[k]))
            if d is not None:
                ch |= self._upd(self.origin, (fname, d), self.ret_origin.get(name, set()))
                ch |= self._upd(self.taint, (fname, d), self.ret_taint.get(name, set()))
            return ch
        if name in RECV:
            bi, li = RECV[name]
            for (obj, off) in self.origin_of(fname, ins.args[bi]):
                if obj not in self.wire:
                    self.wire.add(obj)
                    ch = True
            return ch
        if name in ALLOC or name in ('calloc', 'realloc'):
            obj = '%s:heap@%s' % (fname, d)
            if name == 'malloc':
                self.obj_size[obj] = self.const_int(ins.args[0])
            else:
                self.obj_size.setdefault(obj, None)
            return self._upd(self.origin, (fname, d), {(obj, 0)})
        mi = mem_intrinsic(name)
        if mi:
            di, si, li = mi
            if si is not None:
                src = self.origin_of(fname, ins.args[si])
                t = set()
                for (obj, off) in src:
                    if obj in self.wire:
                        t.add('wire-bytes')
                    t |= self.obj_taint.get(obj, set())
                for (obj, off) in self.origin_of(fname, ins.args[di]):
                    self.obj_stored[obj] = self.obj_stored.get(obj, 0) | 1
                    if t:
                        ch |= self._upd(self.obj_taint, obj, t)
            else:
                for (obj, off) in self.origin_of(fname, ins.args[di]):
                    self.obj_stored[obj] = self.obj_stored.get(obj, 0) | 1
            if d is not None:
                ch |= self._upd(self.origin, (fname, d), self.origin_of(fname, ins.args[di]))
            return ch
        if is_lib(name):
            wire_arg = False
            for a in ins.args:
                for (obj, off) in self.origin_of(fname, a):
                    if obj in self.wire or 'wire-bytes' in self.obj_taint.get(obj, ()):
                        wire_arg = True
            if wire_arg:
                if d is not None and mod.resolve(ins.ty)[0] != 'p':
                    ch |= self._upd(self.taint, (fname, d), {name})
                # out-parameters: other pointer arguments into non-wire local objects
                for a in ins.args[1:]:
                    for (obj, off) in self.origin_of(fname, a):
                        if obj not in self.wire:
                            ch |= self._upd(self.obj_taint, obj, {name})
            if d is not None and mod.resolve(ins.ty)[0] == 'p' and ins.args:
                # payload accessors return a pointer into their argument
                o = set((obj, None) for (obj, off) in self.origin_of(fname, ins.args[0]))
                ch |= self._upd(self.origin, (fname, d), o)
            return ch
        return False

    # ---- guards -----------------------------------------------------------
    def ancestry(self, fname, reg, limit=200):
        """tainted SSA values the value depends on (within the function)"""
        info = self.info[fname]
        seen = set()
        work = [reg]
        while work and len(seen) < limit:
            r = work.pop()
            if r in seen:
                continue
            seen.add(r)
            ins = info.defs.get(r)
            if ins is None:
                continue
            ops = []
            if ins.op == 'phi':
                ops = [tv for (tv, _) in ins.x['incoming']]
            elif ins.op == 'call':
                ops = []
            else:
                ops = list(ins.args)
            for (t, v) in ops:
                if v[0] == 'r' and self.taint.get((fname, v[1])):
                    work.append(v[1])
        return seen

    def guarded(self, fname, block, reg):
        """is the use of tainted `reg` in `block` dominated by the bounding edge of a comparison of (an ancestor of) reg
        with an untainted value?"""
        info = self.info[fname]
        anc = self.ancestry(fname, reg)
        fn = info.fn
        for g in fn.order:
            term = fn.blocks[g][-1] if fn.blocks[g] else None
            if term is None or term.op != 'br' or len(term.x['targets']) != 2:
                continue
            c = term.args[0][1]
            if c[0] != 'r':
                continue
            cmp_ = info.defs.get(c[1])
            if cmp_ is None or cmp_.op != 'icmp':
                continue
            (t1, a), (t2, b) = cmp_.args
            pred = cmp_.x['pred']
            ta = a[0] == 'r' and a[1] in anc
            tb = b[0] == 'r' and b[1] in anc
            if ta == tb:
                continue
            other = b if ta else a
            if other[0] == 'r' and self.taint.get((fname, other[1])):
                continue
            if tb:
                pred = SWAP[pred]
            tsucc, fsucc = term.x['targets']
            bounded = tsucc if pred in BOUND_TRUE else fsucc
            unb = fsucc if bounded == tsucc else tsucc
            if bounded == unb:
                continue
            if info.dominates(bounded, block) and not info.dominates(unb, block) and g != block and \
                    (len(info.pred.get(bounded, [])) == 1 or bounded == block or True):
                # the bounding successor must not be reachable from the unbounded edge without passing the guard again
                if len(info.pred.get(bounded, [])) == 1:
                    return True
        return self.location_guarded(fname, block, reg)

    # ---- memory-location guards (struct fields checked in one function, used in another) --------
    def load_location(self, fname, ins):
        if ins.op != 'load':
            return None
        o = self.origin_of(fname, ins.args[0])
        if not o or any(off is None for (_, off) in o):
            return None
        return frozenset(o)

    def location_guards(self, fname):
        """[(bounded successor block, frozenset of locations)] for every bounding comparison of a value loaded from a
        known memory location against an untainted operand"""
        if fname in self._locguards:
            return self._locguards[fname]
        info = self.info[fname]
        fn = info.fn
        out = []
        for g in fn.order:
            term = fn.blocks[g][-1] if fn.blocks[g] else None
            if term is None or term.op != 'br' or len(term.x['targets']) != 2 or term.args[0][1][0] != 'r':
                continue
            c = info.defs.get(term.args[0][1][1])
            if c is None or c.op != 'icmp':
                continue
            (t1, a), (t2, b) = c.args
            pred = c.x['pred']
            for side, other in ((a, b), (b, a)):
                if side[0] != 'r':
                    continue
                if other[0] == 'r' and self.taint.get((fname, other[1])):
                    continue
                locs = set()
                for r in self.ancestry(fname, side[1]) | {side[1]}:
                    d = info.defs.get(r)
                    if d is not None:
                        l = self.load_location(fname, d)
                        if l:
                            locs |= l
                if not locs:
                    continue
                p = pred if side is a else SWAP[pred]
                tsucc, fsucc = term.x['targets']
                bounded = tsucc if p in BOUND_TRUE else fsucc
                if tsucc != fsucc and len(info.pred.get(bounded, [])) == 1:
                    out.append((bounded, frozenset(locs)))
        self._locguards[fname] = out
        return out

    def object_writes(self, fname):
        """[(block, index, object)] for every instruction that may write a local/global object in this function:
        stores, mem-intrinsic destinations, out-parameters of library calls"""
        if fname in self._writes:
            return self._writes[fname]
        fn = self.info[fname].fn
        out = []
        for b in fn.order:
            for idx, ins in enumerate(fn.blocks[b]):
                ptrs = []
                if ins.op == 'store':
                    ptrs = [ins.args[1]]
                elif ins.op == 'call':
                    name = callee_name(ins)
                    mi = mem_intrinsic(name)
                    if mi:
                        ptrs = [ins.args[mi[0]]]
                    elif name in RECV:
                        ptrs = [ins.args[RECV[name][0]]]
                    elif name not in PRINTF:
                        # library decoders / internal helpers may write through any pointer argument
                        ptrs = [a for a in ins.args if self.mod.resolve(a[0])[0] == 'p']
                for p in ptrs:
                    for (obj, off) in self.origin_of(fname, p):
                        out.append((b, idx, obj))
        self._writes[fname] = out
        return out

    def reach(self, fname):
        if fname in self._reach:
            return self._reach[fname]
        info = self.info[fname]
        r = {b: set(info.succ.get(b, [])) for b in info.fn.order}
        changed = True
        while changed:
            changed = False
            for b in r:
                new = set(r[b])
                for c in list(r[b]):
                    new |= r.get(c, set())
                if new != r[b]:
                    r[b] = new
                    changed = True
        self._reach[fname] = r
        return r

    def locations_guarded_at(self, fname, block, idx=None):
        """locations whose loaded value is bounded at (block, idx): a bounding guard dominates the point and the
        object is not written again between the guard and the point"""
        info = self.info[fname]
        reach = self.reach(fname)
        writes = self.object_writes(fname)
        locs = set()
        for bounded, ls in self.location_guards(fname):
            if not info.dominates(bounded, block):
                continue
            for (obj, off) in ls:
                killed = False
                for (wb, widx, wobj) in writes:
                    if wobj != obj or not info.dominates(bounded, wb):
                        continue
                    if wb == block:
                        if idx is None or widx < idx:
                            killed = True
                    elif block in reach.get(wb, ()):
                        killed = True
                    if killed:
                        break
                if not killed:
                    locs.add((obj, off))
        return locs

    def inherited_location_guards(self, fname, depth=0):
        """locations bounded at *every* call site of fname (transitively)"""
        if fname in self._inherited:
            return self._inherited[fname]
        self._inherited[fname] = set()
        sites = []
        for caller, fn in self.mod.functions.items():
            for b in fn.order:
                for ins in fn.blocks[b]:
                    if ins.op == 'call' and callee_name(ins) == fname:
                        here = self.locations_guarded_at(caller, b, fn.blocks[b].index(ins))
                        if depth < 4:
                            here = here | self.inherited_location_guards(caller, depth + 1)
                        sites.append(here)
        res = set.intersection(*sites) if sites else set()
        self._inherited[fname] = res
        return res

    def location_guarded(self, fname, block, reg):
        info = self.info[fname]
        inherited = self.inherited_location_guards(fname)
        if inherited:
            # a location bounded by the callers stays bounded only if this function does not write the object
            mine = set(o for (_, _, o) in self.object_writes(fname))
            inherited = set((o, off) for (o, off) in inherited if o not in mine)
        ok = self.locations_guarded_at(fname, block) | inherited
        if not ok:
            return False
        for r in self.ancestry(fname, reg) | {reg}:
            d = info.defs.get(r)
            if d is None:
                continue
            l = self.load_location(fname, d)
            if l and l <= ok:
                return True
        return False

    # ---- findings ---------------------------------------------------------
    def loc(self, ins):
        l = self.mod.loc(ins.dbg)
        if not l:
            return ('?', 0)
        f = l[0] or '?'
        from . import build
        root = build.REPO.rstrip('/') + '/'
        if f.startswith(root):
            f = f[len(root):]
        return (f, l[1])

    def findings(self):
        """-> list of dicts(kind, fn, loc, labels, text)"""
        mod = self.mod
        out = []
        for fname, fn in mod.functions.items():
            info = self.info[fname]
            for b in fn.order:
                for ins in fn.blocks[b]:
                    if ins.op == 'call':
                        self._call_sinks(fname, b, ins, out)
                    elif ins.op == 'getelementptr':
                        for tv in ins.args[1:]:
                            if tv[1][0] == 'r':
                                lab = self.taint.get((fname, tv[1][1]))
                                if lab and not self.guarded(fname, b, tv[1][1]):
                                    base = sorted(set(o for (o, _) in self.origin_of(fname, ins.args[0])))
                                    out.append({'kind': 'index', 'fn': fname, 'loc': self.loc(ins), 'labels': sorted(lab),
                                                'text': 'wire-controlled offset (%s) indexes %s without a dominating range check'
                                                % (', '.join(sorted(lab)), ', '.join(base) or 'memory')})
                    elif ins.op in ('udiv', 'sdiv', 'urem', 'srem') and ins.args[1][1][0] == 'r':
                        # K10: a divisor taken from the datagram must be known to be non-zero
                        r = ins.args[1][1][1]
                        lab = self.taint.get((fname, r))
                        if lab and not self._nonzero_guard(fname, info, ins, r):
                            out.append({'kind': 'division', 'fn': fname, 'loc': self.loc(ins), 'labels': sorted(lab),
                                        'text': 'divides by a value from the wire (%s) that no dominating test excludes from being '
                                                'zero: one datagram stops the listener with a division fault' % ', '.join(sorted(lab))})
                    elif ins.op == 'alloca' and ins.x['count'] is not None and ins.x['count'][1][0] == 'r':
                        r = ins.x['count'][1][1]
                        lab = self.taint.get((fname, r))
                        if lab and not self.guarded(fname, b, r):
                            out.append({'kind': 'vla', 'fn': fname, 'loc': self.loc(ins), 'labels': sorted(lab),
                                        'text': 'variable-length stack object sized by a wire value (%s) without a range check'
                                        % ', '.join(sorted(lab))})
            self._loop_strides(fname, fn, info, out)
            self._use_after_free(fname, fn, info, out)
            self._recv_count_uses(fname, fn, info, out)
            self._accumulator_indexes(fname, fn, info, out)
        self._stale_global_pointers(out)
        # one finding per site and clause (a pointer with several possible origins reaches the same sink once)
        uniq = []
        seen = set()
        for f in out:
            k = (f['kind'], f['fn'], f['loc'], f['text'])
            if k not in seen:
                seen.add(k)
                uniq.append(f)
        return uniq

    # ---- K9: a global pointer that outlives the object it points to ------------
    def _stale_global_pointers(self, out):
        """K9: a heap object that is both remembered in a writable global pointer and handed to free() must have that
        global updated by the function that frees it (the queue head is, by STAILQ_REMOVE*; a cached `last element`
        pointer that the freeing function does not touch keeps pointing into freed memory for the next datagram)"""
        mod = self.mod
        holders = {}      # heap object -> globals that hold a pointer to it
        for key, srcs in self.origin.items():
            if not (isinstance(key, tuple) and key[0] == '*' and isinstance(key[1], str) and key[1].startswith('@')):
                continue
            g = mod.globals.get(key[1][1:])
            if g is None or g.const:
                continue
            for (obj, off) in srcs:
                if ':heap@' in str(obj):
                    holders.setdefault(obj, set()).add(key[1])
        if not holders:
            return
        # objects each function stores into, directly or through the functions it calls (the queue helpers)
        direct = {}
        callees = {}
        for fname, fn in mod.functions.items():
            st = set()
            cs = set()
            for ins in fn.instrs():
                if ins.op == 'store':
                    for (obj, off) in self.origin_of(fname, ins.args[1]):
                        st.add(obj)
                elif ins.op == 'call':
                    cn = callee_name(ins)
                    if cn in mod.functions:
                        cs.add(cn)
            direct[fname] = st
            callees[fname] = cs
        closure = {f: set(v) for f, v in direct.items()}
        changed = True
        while changed:
            changed = False
            for f in closure:
                for c in callees[f]:
                    if not closure[c] <= closure[f]:
                        closure[f] |= closure[c]
                        changed = True
        for fname, fn in mod.functions.items():
            stored = closure[fname]
            frees = [ins for ins in fn.instrs() if ins.op == 'call' and callee_name(ins) == 'free' and ins.args]
            for ins in frees:
                for (obj, off) in self.origin_of(fname, ins.args[0]):
                    for g in sorted(holders.get(obj, ())):
                        if g in stored:
                            continue
                        # is the global's pointer ever followed?
                        used = any(i.op == 'load' and any(o == g for (o, _) in self.origin_of(f2, i.args[0]))
                                   for f2, fn2 in mod.functions.items() for i in fn2.instrs())
                        if not used:
                            continue
                        out.append({'kind': 'stale-global-pointer', 'fn': fname, 'loc': self.loc(ins), 'labels': [],
                                    'text': 'frees an object (%s) that the global %s may still point to, and neither it nor a function '
                                            'it calls updates %s: the next datagram follows a pointer into freed memory' % (obj, g, g)})

    # ---- K8: offsets that accumulate from one loop iteration (datagram) to the next ----
    def gep_affine(self, bty, idx):
        """byte offset of a getelementptr with exactly one variable index: (constant part, register, scale)"""
        mod = self.mod
        off = 0
        var = None
        t = bty
        first = True
        for (it, iv) in idx:
            if iv[0] == 'c':
                w = mod.resolve(it)[1] if mod.resolve(it)[0] == 'i' else 64
                c = iv[1] - (1 << w) if iv[1] >> (w - 1) else iv[1]
            elif iv[0] == 'r' and var is None:
                c = None
            else:
                return None
            if first:
                scale = mod.sizeof(t)
                first = False
            else:
                rt = mod.resolve(t)
                if rt[0] == 's':
                    if c is None:
                        return None
                    fo, et = mod.field_offset(rt, c)
                    off += fo
                    t = et
                    continue
                elif rt[0] in ('a', 'vec'):
                    scale = mod.sizeof(rt[2])
                    t = rt[2]
                else:
                    return None
            if c is None:
                var = (iv[1], scale)
            else:
                off += c * scale
        if var is None:
            return None
        return off, var[0], var[1]

    def _const_cone(self, info, reg):
        """registers that determine `reg` if it is built from constants, additions/subtractions, integer casts, phis and
        selects only (no load, call, argument): its value is fixed by the control flow alone; None otherwise"""
        cone = set()
        work = [reg]
        while work:
            r = work.pop()
            if r in cone:
                continue
            ins = info.defs.get(r)
            if ins is None:
                return None
            if ins.op == 'phi':
                ops = [tv for (tv, _) in ins.x['incoming']]
            elif ins.op in ('add', 'sub'):
                ops = list(ins.args)
            elif ins.op in ('zext', 'sext', 'trunc', 'freeze'):
                ops = [ins.args[0]]
            elif ins.op == 'select':
                ops = list(ins.args[1:])
            else:
                return None
            cone.add(r)
            for (t, v) in ops:
                if v[0] == 'r':
                    work.append(v[1])
                elif v[0] != 'c':
                    return None
        return cone

    def _cone_ranges(self, info, cone):
        INF = float('inf')
        rng = {}

        def sval(t, c):
            w = self.mod.resolve(t)[1] if self.mod.resolve(t)[0] == 'i' else 64
            return c - (1 << w) if c >> (w - 1) else c

        def val(tv):
            t, v = tv
            if v[0] == 'c':
                c = sval(t, v[1])
                return (c, c)
            return rng.get(v[1])

        def step(widen):
            ch = False
            for r in cone:
                ins = info.defs[r]
                if ins.op == 'phi':
                    vs = [val(tv) for (tv, _) in ins.x['incoming']]
                elif ins.op == 'select':
                    vs = [val(tv) for tv in ins.args[1:]]
                elif ins.op in ('add', 'sub'):
                    a, b = val(ins.args[0]), val(ins.args[1])
                    if a is None or b is None:
                        continue
                    vs = [(a[0] + b[0], a[1] + b[1])] if ins.op == 'add' else [(a[0] - b[1], a[1] - b[0])]
                else:
                    vs = [val(ins.args[0])]
                vs = [v for v in vs if v is not None]
                if not vs:
                    continue
                new = (min(v[0] for v in vs), max(v[1] for v in vs))
                old = rng.get(r)
                if old is not None:
                    new = (min(old[0], new[0]), max(old[1], new[1]))
                    if widen and new != old:
                        new = (-INF if new[0] < old[0] else new[0], INF if new[1] > old[1] else new[1])
                if new != old:
                    rng[r] = new
                    ch = True
            return ch
        for k in range(40):
            if not step(False):
                return rng
        for k in range(40):
            if not step(True):
                break
        return rng

    def _accumulator_indexes(self, fname, fn, info, out):
        """K8: an index into an object of known size whose value is fixed by the control flow alone (constants, phis,
        additions) must stay inside the object: an offset that is not reset on every path round the receive loop keeps
        growing from one datagram to the next"""
        for b in fn.order:
            for ins in fn.blocks[b]:
                if ins.op != 'getelementptr':
                    continue
                aff = self.gep_affine(ins.x['bty'], ins.args[1:])
                if aff is None:
                    continue
                coff, reg, scale = aff
                if self.taint.get((fname, reg)):
                    continue
                cone = self._const_cone(info, reg)
                if not cone or not any(info.defs[r].op == 'phi' for r in cone):
                    continue
                rng = self._cone_ranges(info, cone).get(reg)
                if rng is None:
                    continue
                lo, hi = rng
                # refine with dominating comparisons of the index (or what it is cast from) with constants; a
                # comparison with something else is a guard this clause cannot evaluate: stay silent
                chain = {reg}
                r = reg
                while info.defs[r].op in ('zext', 'sext', 'trunc', 'freeze') and info.defs[r].args[0][1][0] == 'r':
                    r = info.defs[r].args[0][1][1]
                    chain.add(r)
                opaque = False
                for g in fn.order:
                    term = fn.blocks[g][-1] if fn.blocks[g] else None
                    if term is None or term.op != 'br' or len(term.x['targets']) != 2 or term.args[0][1][0] != 'r':
                        continue
                    c = info.defs.get(term.args[0][1][1])
                    if c is None or c.op != 'icmp':
                        continue
                    (t1, x), (t2, y) = c.args
                    pred = c.x['pred']
                    if y[0] == 'r' and y[1] in chain:
                        x, y = y, x
                        pred = SWAP[pred]
                    if x[0] != 'r' or x[1] not in chain:
                        continue
                    tsucc, fsucc = term.x['targets']
                    for succ, truth in ((tsucc, True), (fsucc, False)):
                        other = fsucc if truth else tsucc
                        if succ == other or not info.dominates(succ, b) or len(info.pred.get(succ, [])) != 1:
                            continue
                        if y[0] != 'c':
                            opaque = True
                            continue
                        w = self.mod.resolve(t1)[1] if self.mod.resolve(t1)[0] == 'i' else 64
                        k = y[1] - (1 << w) if (y[1] >> (w - 1)) and pred[0] == 's' else y[1]
                        p = pred if truth else {'slt': 'sge', 'sle': 'sgt', 'sgt': 'sle', 'sge': 'slt', 'ult': 'uge', 'ule': 'ugt',
                                                'ugt': 'ule', 'uge': 'ult', 'eq': 'ne', 'ne': 'eq'}[pred]
                        if p in ('slt', 'ult'):
                            hi = min(hi, k - 1)
                        elif p in ('sle', 'ule'):
                            hi = min(hi, k)
                        elif p in ('sgt', 'ugt'):
                            lo = max(lo, k + 1)
                        elif p in ('sge', 'uge'):
                            lo = max(lo, k)
                        elif p == 'eq':
                            lo, hi = max(lo, k), min(hi, k)
                        if p in ('ult', 'ule'):
                            lo = max(lo, 0)
                if opaque:
                    continue
                for (obj, off) in self.origin_of(fname, ins.args[0]):
                    size = self.obj_size.get(obj)
                    if size is None or off is None:
                        continue
                    first = off + coff + lo * scale
                    last = off + coff + hi * scale
                    # one past the end is a valid address to form; the element itself must exist when it is accessed,
                    # which the access-size clauses check - here only an offset beyond one-past-the-end is reported
                    if last > size or first < 0:
                        def f(v):
                            return 'unbounded' if v in (float('inf'), -float('inf')) else str(int(v))
                        out.append({'kind': 'accumulated-index', 'fn': fname, 'loc': self.loc(ins), 'labels': [],
                                    'text': 'offset built from constants only ranges over [%s, %s] here (it is not reset on every path '
                                            'round the enclosing loop), %s has %d octets' % (f(first), f(last), obj, size)})

    # ---- K7: indexes / lengths derived from the receive count ---------------
    def _affine_of_recv(self, info, reg, depth=0):
        """reg == (result of a recv call) + constant ?  -> (call instruction, constant) or None"""
        ins = info.defs.get(reg)
        if ins is None or depth > 12:
            return None
        if ins.op == 'call' and callee_name(ins) in RECV:
            return ins, 0
        if ins.op in ('trunc', 'sext', 'zext', 'bitcast', 'freeze') and ins.args[0][1][0] == 'r':
            return self._affine_of_recv(info, ins.args[0][1][1], depth + 1)
        if ins.op in ('add', 'sub'):
            (t1, a), (t2, b) = ins.args
            w = self.mod.resolve(t1)[1] if self.mod.resolve(t1)[0] == 'i' else 64

            def sval(c):
                return c - (1 << w) if c >> (w - 1) else c
            if a[0] == 'r' and b[0] == 'c':
                r = self._affine_of_recv(info, a[1], depth + 1)
                if r:
                    return r[0], r[1] + (sval(b[1]) if ins.op == 'add' else -sval(b[1]))
            if ins.op == 'add' and b[0] == 'r' and a[0] == 'c':
                r = self._affine_of_recv(info, b[1], depth + 1)
                if r:
                    return r[0], r[1] + sval(a[1])
        return None

    def _recv_interval(self, fname, info, call, block):
        """interval of the receive count at `block`: [-1, length argument], refined by every comparison of (count +
        constant) with a constant whose surviving edge dominates the block"""
        n = self.const_int(call.args[RECV[callee_name(call)][1]])
        lo, hi = -1, (n if n is not None else (1 << 31) - 1)
        fn = info.fn
        for g in fn.order:
            term = fn.blocks[g][-1] if fn.blocks[g] else None
            if term is None or term.op != 'br' or len(term.x['targets']) != 2 or term.args[0][1][0] != 'r':
                continue
            c = info.defs.get(term.args[0][1][1])
            if c is None or c.op != 'icmp':
                continue
            (t1, a), (t2, b) = c.args
            pred = c.x['pred']
            if a[0] == 'c' and b[0] == 'r':
                a, b = b, a
                pred = SWAP[pred]
            if a[0] != 'r' or b[0] != 'c':
                continue
            aff = self._affine_of_recv(info, a[1])
            if not aff or aff[0] is not call:
                continue
            w = self.mod.resolve(t1)[1] if self.mod.resolve(t1)[0] == 'i' else 64
            k = b[1] - (1 << w) if b[1] >> (w - 1) else b[1]
            k -= aff[1]                      # compare the count itself with k
            tsucc, fsucc = term.x['targets']
            for succ, truth in ((tsucc, True), (fsucc, False)):
                other = fsucc if truth else tsucc
                if succ == other or not info.dominates(succ, block) or len(info.pred.get(succ, [])) != 1:
                    continue
                p = pred if truth else {'slt': 'sge', 'sle': 'sgt', 'sgt': 'sle', 'sge': 'slt', 'ult': 'uge', 'ule': 'ugt',
                                        'ugt': 'ule', 'uge': 'ult', 'eq': 'ne', 'ne': 'eq'}[pred]
                if p in ('slt', 'ult'):
                    hi = min(hi, k - 1)
                    if p == 'ult':
                        lo = max(lo, 0)
                elif p in ('sle', 'ule'):
                    hi = min(hi, k)
                    if p == 'ule':
                        lo = max(lo, 0)
                elif p in ('sgt', 'ugt'):
                    lo = max(lo, k + 1)
                elif p in ('sge', 'uge'):
                    lo = max(lo, k)
                elif p == 'eq':
                    lo, hi = max(lo, k), min(hi, k)
        return lo, hi

    def _recv_count_uses(self, fname, fn, info, out):
        for b in fn.order:
            for ins in fn.blocks[b]:
                if ins.op == 'getelementptr':
                    for tv in ins.args[1:]:
                        if tv[1][0] != 'r':
                            continue
                        aff = self._affine_of_recv(info, tv[1][1])
                        if not aff:
                            continue
                        lo, hi = self._recv_interval(fname, info, aff[0], b)
                        lo += aff[1]
                        hi += aff[1]
                        for (obj, off) in self.origin_of(fname, ins.args[0]):
                            size = self.obj_size.get(obj)
                            if size is None or off is None:
                                continue
                            es = 1
                            if lo + off < 0 or (hi + off) * es > size - 1:
                                out.append({'kind': 'recv-count-index', 'fn': fname, 'loc': self.loc(ins), 'labels': [],
                                            'text': 'index derived from the receive count ranges over [%d, %d] here, %s has octets 0..%d'
                                            % (lo + off, hi + off, obj, size - 1)})
                elif ins.op == 'call' and mem_intrinsic(callee_name(ins)):
                    di, si, li = mem_intrinsic(callee_name(ins))
                    ltv = ins.args[li]
                    if ltv[1][0] != 'r':
                        continue
                    aff = self._affine_of_recv(info, ltv[1][1])
                    if not aff:
                        continue
                    lo, hi = self._recv_interval(fname, info, aff[0], b)
                    lo += aff[1]
                    hi += aff[1]
                    for (obj, off) in self.origin_of(fname, ins.args[di]):
                        size = self.obj_size.get(obj)
                        if size is None or off is None:
                            continue
                        if lo < 0 or off + hi > size:
                            out.append({'kind': 'recv-count-length', 'fn': fname, 'loc': self.loc(ins), 'labels': [],
                                        'text': 'copy length derived from the receive count ranges over [%d, %d] here, destination %s has %d octets from offset %d'
                                        % (lo, hi, obj, size, off)})

    def _derived(self, info, root):
        """SSA values that are `root` plus constant address arithmetic / casts"""
        seen = {root}
        changed = True
        while changed:
            changed = False
            for d, ins in info.defs.items():
                if d in seen:
                    continue
                if ins.op in ('getelementptr', 'bitcast', 'addrspacecast') and ins.args and ins.args[0][1][0] == 'r' and \
                        ins.args[0][1][1] in seen:
                    seen.add(d)
                    changed = True
        return seen

    def _use_after_free(self, fname, fn, info, out):
        """K6: a pointer handed to free() must not be dereferenced at a point the free() dominates (same SSA value,
        so the same dynamic object): the STAILQ_FOREACH + free idiom, double frees, stale accesses"""
        for b in fn.order:
            for idx, ins in enumerate(fn.blocks[b]):
                if ins.op != 'call' or callee_name(ins) != 'free' or not ins.args or ins.args[0][1][0] != 'r':
                    continue
                root = ins.args[0][1][1]
                # look through the cast that precedes free(void*)
                rdef = info.defs.get(root)
                roots = {root}
                while rdef is not None and rdef.op in ('bitcast', 'addrspacecast') and rdef.args[0][1][0] == 'r':
                    roots.add(rdef.args[0][1][1])
                    rdef = info.defs.get(rdef.args[0][1][1])
                der = set()
                for r0 in roots:
                    der |= self._derived(info, r0)
                for b2 in fn.order:
                    for idx2, use in enumerate(fn.blocks[b2]):
                        after = (b2 == b and idx2 > idx) or (b2 != b and info.dominates(b, b2))
                        if not after:
                            continue
                        ptrs = []
                        if use.op == 'load':
                            ptrs = [use.args[0]]
                        elif use.op == 'store':
                            ptrs = [use.args[1]]
                        elif use.op == 'call' and callee_name(use) == 'free':
                            ptrs = [use.args[0]]
                        for (t, v) in ptrs:
                            if v[0] == 'r' and v[1] in der:
                                out.append({'kind': 'use-after-free', 'fn': fname, 'loc': self.loc(use), 'labels': [],
                                            'text': 'object released by free() at line %s is %s afterwards on every path through that free()'
                                            % (self.loc(ins)[1], 'freed again' if use.op == 'call' else 'accessed')})
                                break

    def _call_sinks(self, fname, block, ins, out):
        mod = self.mod
        name = callee_name(ins)
        if name is None:
            return
        mi = mem_intrinsic(name)
        if mi:
            di, si, li = mi
            ltv = ins.args[li]
            n = self.const_int(ltv)
            if ltv[1][0] == 'r':
                lab = self.taint.get((fname, ltv[1][1]))
                if lab and not self.guarded(fname, block, ltv[1][1]):
                    dst = sorted(set(o for (o, _) in self.origin_of(fname, ins.args[di])))
                    out.append({'kind': 'copy-length', 'fn': fname, 'loc': self.loc(ins), 'labels': sorted(lab),
                                'text': '%s length comes from the wire (%s) without a dominating range check; destination %s'
                                % (name.split('.')[1] if name.startswith('llvm.') else name, ', '.join(sorted(lab)),
                                   ', '.join('%s (%s octets)' % (o, self.obj_size.get(o)) for o in dst) or 'unknown')})
            if n is not None:
                for role, ai in (('destination', di), ('source', si)):
                    if ai is None:
                        continue
                    for (obj, off) in self.origin_of(fname, ins.args[ai]):
                        size = self.obj_size.get(obj)
                        if size is not None and off is not None and off + n > size:
                            out.append({'kind': 'static-extent', 'fn': fname, 'loc': self.loc(ins), 'labels': [],
                                        'text': '%s of %d octets at offset %d of %s, which has only %d octets'
                                        % ('copy into' if role == 'destination' else 'copy from', n, off, obj, size)})
            return
        if name in RECV:
            bi, li = RECV[name]
            n = self.const_int(ins.args[li])
            for (obj, off) in self.origin_of(fname, ins.args[bi]):
                size = self.obj_size.get(obj)
                if n is None:
                    out.append({'kind': 'recv-length', 'fn': fname, 'loc': self.loc(ins), 'labels': [],
                                'text': 'receive length is not a constant; cannot be compared with the %s-octet buffer %s' % (size, obj)})
                elif size is None or off is None:
                    out.append({'kind': 'recv-buffer', 'fn': fname, 'loc': self.loc(ins), 'labels': [],
                                'text': 'size of the receive buffer %s is not known statically (receive length %d)' % (obj, n)})
                elif off + n > size:
                    out.append({'kind': 'recv-overflow', 'fn': fname, 'loc': self.loc(ins), 'labels': [],
                                'text': 'receives up to %d octets into %s at offset %d, which has only %d octets' % (n, obj, off, size)})
            return
        if name in PRINTF:
            fi = PRINTF[name]
            if fi < len(ins.args):
                fmt = self._cstring(ins.args[fi])
                if fmt is not None:
                    specs = re.findall(r'%[-+ #0]*\d*(?:\.\d+|\.\*)?(?:hh|h|ll|l|z|j|t|L)?([a-zA-Z%])', fmt)
                    k = 0
                    for s in specs:
                        if s == '%':
                            continue
                        ai = fi + 1 + k
                        k += 1
                        if s == 's' and ai < len(ins.args):
                            for (obj, off) in self.origin_of(fname, ins.args[ai]):
                                if obj in self.wire:
                                    out.append({'kind': 'string-read', 'fn': fname, 'loc': self.loc(ins), 'labels': ['wire-bytes'],
                                                'text': '%%s prints bytes of the receive buffer %s as a C string: no terminator is guaranteed' % obj})
            return
        if name in ('Avtp_Vss_GetVssPath', 'Avtp_Vss_GetVssData') and len(ins.args) > 1:
            for (obj, off) in self.origin_of(fname, ins.args[1]):
                if not self.obj_stored.get(obj) and not obj.startswith('@'):
                    out.append({'kind': 'unset-result-object', 'fn': fname, 'loc': self.loc(ins), 'labels': [name],
                                'text': 'result object %s is handed to %s without any of its (pointer) members having been set' % (obj, name)})

    def _cstring(self, tv):
        t, v = tv
        while v[0] == 'ce' and v[1] in ('getelementptr', 'bitcast'):
            v = v[3][0][1] if v[1] == 'getelementptr' else v[2][1]
        if v[0] == 'g':
            g = self.mod.globals.get(v[1])
            if g is not None and g.init is not None and g.init[0] == 'str':
                return g.init[1].split(b'\0')[0].decode('latin1')
        return None

    def _loop_strides(self, fname, fn, info, out):
        for b in fn.order:
            for ins in fn.blocks[b]:
                if ins.op != 'phi':
                    break
                for (tv, lbl) in ins.x['incoming']:
                    if not info.dominates(b, lbl) or tv[1][0] != 'r':
                        continue
                    step = info.defs.get(tv[1][1])
                    if step is None or step.op != 'add':
                        continue
                    ops = step.args
                    var = [o for o in ops if o[1] == ('r', ins.dest)]
                    oth = [o for o in ops if o[1] != ('r', ins.dest)]
                    if not var or not oth or oth[0][1][0] != 'r':
                        continue
                    lab = self.taint.get((fname, oth[0][1][1]))
                    if not lab:
                        continue
                    # the loop condition must depend on this variable
                    term = fn.blocks[b][-1]
                    if term.op != 'br' or len(term.x['targets']) != 2:
                        continue
                    c = info.defs.get(term.args[0][1][1]) if term.args[0][1][0] == 'r' else None
                    if c is None or c.op != 'icmp':
                        continue
                    if ('r', ins.dest) not in [a[1] for a in c.args]:
                        continue
                    if self._nonzero_guard(fname, info, step, oth[0][1][1]):
                        continue
                    out.append({'kind': 'loop-stride', 'fn': fname, 'loc': self.loc(step), 'labels': sorted(lab),
                                'text': 'loop position advances by a wire value (%s) that may be zero: the loop need not terminate'
                                % ', '.join(sorted(lab))})

    def _nonzero_location_guard(self, fname, info, step, reg):
        """the value is re-loaded from a memory location (an out-parameter object such as `&interval`) whose content was
        tested against zero by a dominating branch, and nothing writes the object after that test"""
        fn = info.fn
        d = info.defs.get(reg)
        while d is not None and d.op in ('zext', 'sext', 'trunc', 'freeze') and d.args[0][1][0] == 'r':
            d = info.defs.get(d.args[0][1][1])
        if d is None or d.op != 'load':
            return False
        loc = self.load_location(fname, d)
        if not loc:
            return False
        objs = set(o for (o, _) in loc)
        # every write to the object (stores, calls that are handed its address)
        writers = []
        for b in fn.order:
            for k, ins in enumerate(fn.blocks[b]):
                if ins.op == 'store' and objs & set(o for (o, _) in self.origin_of(fname, ins.args[1])):
                    writers.append((b, k))
                elif ins.op == 'call' and any(v[0] == 'r' and objs & set(o for (o, _) in self.origin_of(fname, (t, v)))
                                              for (t, v) in ins.args):
                    writers.append((b, k))
        for g in fn.order:
            term = fn.blocks[g][-1] if fn.blocks[g] else None
            if term is None or term.op != 'br' or len(term.x['targets']) != 2 or term.args[0][1][0] != 'r':
                continue
            c = info.defs.get(term.args[0][1][1])
            if c is None or c.op != 'icmp':
                continue
            (t1, a), (t2, b2) = c.args
            if b2 != ('c', 0) or a[0] != 'r':
                continue
            la = info.defs.get(a[1])
            while la is not None and la.op in ('zext', 'sext', 'trunc', 'freeze') and la.args[0][1][0] == 'r':
                la = info.defs.get(la.args[0][1][1])
            if la is None or la.op != 'load' or self.load_location(fname, la) != loc:
                continue
            pred = c.x['pred']
            nz = term.x['targets'][0] if pred in ('ne', 'ugt', 'sgt') else (term.x['targets'][1] if pred in ('eq', 'ule') else None)
            if not nz or not info.dominates(nz, step.bb) or len(info.pred.get(nz, [])) != 1:
                continue
            kcmp = fn.blocks[g].index(la)
            if all((wb == g and wk < kcmp) or (wb != g and info.dominates(wb, g)) for (wb, wk) in writers):
                return True
        return False

    def _nonzero_guard(self, fname, info, step, reg):
        if self._nonzero_location_guard(fname, info, step, reg):
            return True
        anc = self.ancestry(fname, reg)
        fn = info.fn
        for g in fn.order:
            term = fn.blocks[g][-1] if fn.blocks[g] else None
            if term is None or term.op != 'br' or len(term.x['targets']) != 2 or term.args[0][1][0] != 'r':
                continue
            c = info.defs.get(term.args[0][1][1])
            if c is None or c.op != 'icmp':
                continue
            (t1, a), (t2, b) = c.args
            pred = c.x['pred']
            if a[0] == 'r' and a[1] in anc and b == ('c', 0):
                nz = term.x['targets'][0] if pred in ('ne', 'ugt', 'sgt') else (term.x['targets'][1] if pred in ('eq', 'ule') else None)
                if nz and info.dominates(nz, step.bb) and len(info.pred.get(nz, [])) == 1:
                    return True
        return False
