"""C20 - public headers can be combined freely without changing meaning.

Compile-time witnesses only (clang -fsyntax-only / -emit-llvm, nothing runs):
each header alone yields its public facts; every ordered pair of headers, in
C99 and C++17, must compile with all facts of both headers asserted."""
import os
import random
import re
from concurrent.futures import ThreadPoolExecutor

from .. import build, irparse
from ..ctx import load_spec
from ..report import Result, Broken

LANGS = {'c99': ['-x', 'c', '-std=c99'], 'gnu17': ['-x', 'c', '-std=gnu17'], 'c++17': ['-x', 'c++', '-std=c++17']}


def is_c(lang):
    return not lang.startswith('c++')
COMMON = ['-fsyntax-only', '-ferror-limit=0', '-Werror=macro-redefined', '-Werror=visibility', '-Wundef', '-Wno-zero-length-array', '-Wno-c11-extensions',
          '-Wno-c99-extensions', '-Wno-extern-c-compat']


# glibc's <sys/cdefs.h> replaces _Static_assert by a bit-field trick before C11, which loses the message
UNDEF_SA = '#ifdef _Static_assert\n#undef _Static_assert\n#endif\n'


def headers():
    inc = os.path.join(build.REPO, 'include')
    out = []
    for root, _, files in os.walk(os.path.join(inc, 'avtp')):
        for f in files:
            if f.endswith('.h'):
                out.append(os.path.relpath(os.path.join(root, f), inc))
    return sorted(out)


def clang(args, src_text=None, cwd=None):
    cmd = [build.CLANG] + args
    import subprocess
    p = subprocess.run(cmd, input=src_text, stdout=subprocess.PIPE, stderr=subprocess.PIPE, universal_newlines=True, cwd=cwd)
    return p.returncode, p.stdout, p.stderr


INC = None


def inc_args():
    return ['-I', os.path.join(build.REPO, 'include')]


SYSTEM_HEADERS = ['assert.h', 'ctype.h', 'errno.h', 'inttypes.h', 'limits.h', 'stdarg.h', 'stdbool.h', 'stddef.h', 'stdint.h',
                  'stdio.h', 'stdlib.h', 'string.h', 'endian.h', 'byteswap.h', 'arpa/inet.h', 'netinet/in.h', 'sys/types.h',
                  'time.h', 'unistd.h']
_BASE = {}


def base_macros(lang):
    """macros of the compiler and of the C library's headers: they are not facts of the project's headers (which
    system headers a public header happens to include may change freely)"""
    if lang not in _BASE:
        txt = ''.join('#if __has_include(<%s>)\n#include <%s>\n#endif\n' % (h, h) for h in SYSTEM_HEADERS)
        _BASE[lang] = set(clang(LANGS[lang] + ['-dM', '-E', '-'], txt)[1].split('\n')) | \
            set(clang(LANGS[lang] + ['-dM', '-E', '-'], '')[1].split('\n'))
    return _BASE[lang]


def macros_of(hdr, lang):
    base = '\n'.join(base_macros(lang))
    rc, out, err = clang(LANGS[lang] + inc_args() + ['-dM', '-E', '-'], '#include "%s"\n' % hdr)
    if rc != 0:
        return None, err
    b = set(base.split('\n'))
    ms = {}
    for line in out.split('\n'):
        if line in b or not line.startswith('#define '):
            continue
        m = re.match(r'#define (\w+)(\([^)]*\))?\s*(.*)$', line)
        if not m or m.group(2):
            continue
        if m.group(1).startswith('_'):
            continue
        ms[m.group(1)] = m.group(3).strip()
    return ms, None


def decls_of(hdr, lang):
    """enumerators, typedef'd record names, tags from the preprocessed text
    (only the part that comes from include/avtp)."""
    rc, out, err = clang(LANGS[lang] + inc_args() + ['-E', '-'], '#include "%s"\n' % hdr)
    if rc != 0:
        return None, err
    keep = []
    on = False
    for line in out.split('\n'):
        m = re.match(r'# \d+ "([^"]*)"', line)
        if m:
            on = '/include/avtp/' in m.group(1)
            continue
        if on:
            keep.append(line)
    txt = '\n'.join(keep)
    txt = re.sub(r'/\*.*?\*/', ' ', txt, flags=re.S)
    enums = []
    tags = []
    for m in re.finditer(r'\benum\s*(\w+)?\s*\{([^}]*)\}', txt):
        if m.group(1):
            tags.append(('enum', m.group(1)))
        for item in m.group(2).split(','):
            item = item.strip()
            if not item:
                continue
            nm = re.match(r'(\w+)', item)
            if nm:
                enums.append(nm.group(1))
    records = []
    for m in re.finditer(r'\btypedef\s+(struct|union)\s*(\w+)?\s*\{((?:[^{}]|\{[^{}]*\})*)\}\s*(?:__attribute__\s*\(\([^)]*\)\)\s*)?(\w+)\s*;', txt):
        if m.group(2):
            tags.append((m.group(1), m.group(2)))
        records.append((m.group(4), 'payload' in re.findall(r'(\w+)\s*\[', m.group(3))))
    for m in re.finditer(r'\b(struct|union)\s+(\w+)\s*\{((?:[^{}]|\{[^{}]*\})*)\}\s*(?:__attribute__\s*\(\([^)]*\)\)\s*)?;', txt):
        tags.append((m.group(1), m.group(2)))
        records.append(('%s %s' % (m.group(1), m.group(2)), False))
    return {'enums': enums, 'records': records, 'tags': tags}, None


INT_BODY = re.compile(r'^[\w\s()+\-*/<>|&~^%]+$')


def alone_facts(hdr, workdir):
    """-> dict(symbol -> ('enum'|'macro'|'sizeof'|'payoff', value)) evaluated with only this header included."""
    ms, err = macros_of(hdr, 'c99')
    if ms is None:
        return None, err
    ds, err = decls_of(hdr, 'c99')
    if ds is None:
        return None, err
    lines = ['#include <stddef.h>', '#include "%s"' % hdr, 'typedef long long verif_ll;']
    names = []
    for e in ds['enums']:
        lines.append('const verif_ll verif_e_%s = (verif_ll)(%s);' % (e, e))
    cand = [m for m, body in ms.items() if body and INT_BODY.match(body) and not re.match(r'^[A-Za-z_]\w*$', body) or
            (body and re.match(r'^\(?\s*[A-Z][A-Z0-9_]*\s*\)?$', body))]
    for m in sorted(set(cand)):
        lines.append('const verif_ll verif_m_%s = (verif_ll)(%s);' % (m, m))
    for k, (r, has_payload) in enumerate(ds['records']):
        tag = re.sub(r'\W', '_', r)
        lines.append('const verif_ll verif_s_%s = (verif_ll)sizeof(%s);' % (tag, r))
        if has_payload:
            lines.append('const verif_ll verif_p_%s = (verif_ll)offsetof(%s, payload);' % (tag, r))
    src = os.path.join(workdir, 'alone_%s.c' % re.sub(r'\W', '_', hdr))
    # drop macros that are not integer constant expressions (reported by name by the compiler)
    for attempt in range(4):
        open(src, 'w').write('\n'.join(lines) + '\n')
        rc, out, err = clang(['-x', 'c', '-std=c99', '-S', '-emit-llvm', '-ferror-limit=0', '-Wno-everything', '-o', src + '.ll', src] + inc_args())
        if rc == 0:
            break
        badl = set(int(m.group(1)) for m in re.finditer(r'alone_[^:]*:(\d+):\d+: error', err))
        if not badl:
            return None, err
        newl = [l for i, l in enumerate(lines, 1) if not (i in badl and l.startswith('const verif_ll verif_m_'))]
        if len(newl) == len(lines):
            return None, err
        lines = newl
    else:
        return None, 'could not evaluate the public constants of %s' % hdr
    mod = irparse.parse_module(open(src + '.ll').read(), src)
    facts = {}
    recmap = {re.sub(r'\W', '_', r): r for r, _ in ds['records']}
    for name, g in mod.globals.items():
        if not name.startswith('verif_') or g.init is None:
            continue
        v = g.init[1] if g.init[0] == 'c' else 0
        if v >= 1 << 63:
            v -= 1 << 64
        kind, sym = name[6], name[8:]
        if kind == 'e':
            facts[sym] = ('enum', v)
        elif kind == 'm':
            facts[sym] = ('macro', v)
        elif kind == 's':
            facts[recmap[sym]] = ('sizeof', v)
        elif kind == 'p':
            facts[recmap[sym] + '.payload'] = ('payoff', v)
    # C++ only: is the name an enumerator (of some enum type) or a plain integer?  (its *type* is part of its meaning)
    kinds = {}
    absent = set()
    names = [sym for sym, (kind, v) in facts.items() if kind in ('enum', 'macro')]
    srcpp = src[:-2] + '.cpp'
    for attempt in range(6):
        if not names:
            break
        lines = ['#include <stddef.h>', '#include <type_traits>', '#include "%s"' % hdr]
        for n in names:
            lines.append('extern const long long verif_k_%s = std::is_enum<decltype(%s)>::value ? 1 : 0;' % (n, n))
        open(srcpp, 'w').write('\n'.join(lines) + '\n')
        rc, out, err = clang(['-x', 'c++', '-std=c++17', '-S', '-emit-llvm', '-ferror-limit=0', '-Wno-everything', '-o', srcpp + '.ll', srcpp] + inc_args())
        if rc == 0:
            m2 = irparse.parse_module(open(srcpp + '.ll').read(), srcpp)
            for name, g in m2.globals.items():
                if name.startswith('verif_k_') and g.init is not None:
                    kinds[name[8:]] = (g.init[1] if g.init[0] == 'c' else 0)
            break
        # a name the header declares in C only (e.g. the C99 fallback of a static-assertion macro) has no C++ fact
        gone = set(m.group(1) for m in re.finditer(r"error: use of undeclared identifier '(\w+)'", err))
        gone &= set(names)
        if not gone:
            return None, 'C++ kind unit for %s: %s' % (hdr, err[-300:])
        absent |= gone
        names = [n for n in names if n not in gone]
    # other C dialects: a name may exist in C99 only (a fallback declaration selected by __STDC_VERSION__)
    absent_by_lang = {'c++17': absent}
    for lang in LANGS:
        if lang in ('c99', 'c++17'):
            continue
        gone_all = set()
        names = [sym for sym, (kind, v) in facts.items() if kind in ('enum', 'macro')]
        for attempt in range(6):
            if not names:
                break
            lines = ['#include <stddef.h>', '#include "%s"' % hdr]
            for n in names:
                lines.append('const long long verif_q_%s = (long long)(%s);' % (n, n))
            rc, out, err = clang(LANGS[lang] + ['-fsyntax-only', '-ferror-limit=0', '-Wno-everything', '-'] + inc_args(),
                                 '\n'.join(lines) + '\n')
            if rc == 0:
                break
            gone = set(m.group(1) for m in re.finditer(r"error: use of undeclared identifier '(\w+)'", err)) & set(names)
            if not gone:
                return None, '%s probe unit for %s: %s' % (lang, hdr, err[-300:])
            gone_all |= gone
            names = [n for n in names if n not in gone]
        absent_by_lang[lang] = gone_all
    return {'facts': facts, 'kinds': kinds, 'cxx_absent': absent, 'absent': absent_by_lang}, None


def assert_lines(hdr, facts, lang, kinds=None, absent=None):
    kw = '_Static_assert' if is_c(lang) else 'static_assert'
    out = []
    gone = (absent or {}).get(lang)
    if gone:
        facts = {k: v for k, v in facts.items() if k not in gone}
    if not is_c(lang) and kinds:
        for sym, k in sorted(kinds.items()):
            out.append('static_assert((std::is_enum<decltype(%s)>::value ? 1 : 0) == %d, "%s|%s");' % (sym, k, hdr, sym))
    for sym, (kind, v) in sorted(facts.items()):
        tag = '%s|%s' % (hdr, sym)
        if kind in ('enum', 'macro'):
            out.append('%s((long long)(%s) == %dLL, "%s");' % (kw, sym, v, tag))
        elif kind == 'sizeof':
            out.append('%s(sizeof(%s) == %d, "%s");' % (kw, sym, v, tag))
        elif kind == 'payoff':
            out.append('%s(offsetof(%s, payload) == %d, "%s");' % (kw, sym[:-8], v, tag))
    return out


def parse_diags(err):
    """-> list of (symbol, message, file) for every error"""
    out = []
    for m in re.finditer(r'^(.*?):(\d+):\d+: error: (.*)$', err, re.M):
        msg = m.group(3)
        sym = None
        t = re.search(r'"([^"|]*)\|([^"]*)"', msg)
        if t:
            # the key names the header whose fact changed: the same symbol failing for the other header is a different finding
            sym = '%s@%s' % (t.group(2), os.path.basename(t.group(1)))
            msg = 'meaning changed: %s (declared by %s) no longer has the value it has when its header is included alone' % (t.group(2), t.group(1))
        else:
            q = re.search(r"'([^']+)'", msg)
            if q:
                sym = q.group(1)
        out.append((sym or 'unknown', msg, m.group(1)))
    named = [o for o in out if o[0] != 'unknown']
    return named or out


def compile_unit(args):
    name, lang, text = args
    rc, out, err = clang(LANGS[lang] + COMMON + inc_args() + ['-'], text)
    return name, lang, rc, err


def base(h):
    return os.path.basename(h)


def run(tier, res, seed):
    floors = load_spec('floors.json')
    hs = headers()
    if len(hs) < floors['C20_min_headers']:
        raise Broken('only %d public headers found under include/avtp (floor %d)' % (len(hs), floors['C20_min_headers']))
    d = build.scratch()
    # 1. every header alone, both languages
    alone = {}
    jobs = [(h, lang, '#include "%s"\n' % h) for h in hs for lang in LANGS]
    with ThreadPoolExecutor(16) as ex:
        for name, lang, rc, err in ex.map(compile_unit, jobs):
            res.count('headers compiled alone (x language)')
            if rc != 0:
                ds = parse_diags(err)
                res.violation('alone:%s:%s' % (base(name), ds[0][0] if ds else 'error'),
                              'include/%s: does not compile on its own as %s: %s' % (name, lang, ds[0][1] if ds else err[-300:]))
            else:
                res.ok()
    # an identifier evaluated in #if while undefined, although another public header defines it: what the header means
    # then depends on whether that other header came first
    project_macros = set()
    defined_in = {}
    for h in hs:
        text = open(os.path.join(build.REPO, 'include', h), errors='replace').read()
        text = re.sub(r'/\*.*?\*/', ' ', text, flags=re.S)
        for m in re.finditer(r'^[ \t]*#[ \t]*define[ \t]+(\w+)', text, re.M):
            defined_in.setdefault(m.group(1), set()).add(h)
    for h in hs:
        ms, _ = macros_of(h, 'c99')
        project_macros |= set(ms or ())
    project_macros |= set(defined_in)
    # a header that #undef-s a macro which another public header defines (and which it may itself have received from that
    # header behind `#pragma once`) takes it away from every header included later: a three-header effect that no pair shows
    for h in hs:
        text = open(os.path.join(build.REPO, 'include', h), errors='replace').read()
        text = re.sub(r'/\*.*?\*/', ' ', text, flags=re.S)
        for m in re.finditer(r'^[ \t]*#[ \t]*undef[ \t]+(\w+)', text, re.M):
            others = sorted(o for o in defined_in.get(m.group(1), ()) if o != h)
            res.count('#undef directives in public headers inspected')
            # undefined and then defined again by the same header: a redefinition (whose effect on values the pair units
            # measure), not a removal
            again = re.search(r'^[ \t]*#[ \t]*define[ \t]+%s\b' % re.escape(m.group(1)), text[m.end():], re.M)
            if others and not again:
                res.violation('undef-of-foreign-macro:%s:%s' % (base(h), m.group(1)),
                              'include/%s: #undef %s removes a macro that include/%s defines: a header included after both that relies '
                              'on it (the definition sits behind an include guard and is not repeated) silently changes meaning'
                              % (h, m.group(1), others[0]))
            else:
                res.ok()
    with ThreadPoolExecutor(16) as ex:
        for name, lang, rc, err in ex.map(compile_unit, jobs):
            for m in re.finditer(r"warning: '(\w+)' is not defined, evaluates to 0", err or ''):
                if m.group(1) in project_macros:
                    res.violation('undef-in-if:%s:%s' % (base(name), m.group(1)),
                                  'include/%s (%s): #if evaluates %s while it is undefined, but another public header defines it: the '
                                  'meaning of this header depends on which headers were included before it' % (name, lang, m.group(1)))
    with ThreadPoolExecutor(16) as ex:
        for h, (fa, err) in zip(hs, ex.map(lambda h: alone_facts(h, d), hs)):
            if fa is None:
                raise Broken('cannot evaluate the public facts of include/%s: %s' % (h, (err or '')[-400:]))
            alone[h] = fa
    nfacts = sum(len(a['facts']) for a in alone.values())
    res.count('public facts recorded (enumerators, integer macros, sizes, payload offsets)', nfacts)
    # tags declared by several headers with different owners
    # 2. all ordered pairs, both languages
    jobs = []
    for a in hs:
        for b in hs:
            if a == b:
                continue
            for lang in LANGS:
                text = '#include <stddef.h>\n' + ('#include <type_traits>\n' if not is_c(lang) else '') + \
                    '#include "%s"\n#include "%s"\n' % (a, b) + UNDEF_SA
                text += '\n'.join(assert_lines(a, alone[a]['facts'], lang, alone[a]['kinds'], alone[a]['absent']) +
                                  assert_lines(b, alone[b]['facts'], lang, alone[b]['kinds'], alone[b]['absent'])) + '\n'
                jobs.append(('%s>%s' % (a, b), lang, text))
    pair_syms = set()
    seen = set()
    with ThreadPoolExecutor(16) as ex:
        for name, lang, rc, err in ex.map(compile_unit, jobs):
            res.count('ordered header pairs compiled (x language)')
            if rc == 0:
                res.ok()
                continue
            a, b = name.split('>')
            pair = '+'.join(sorted([base(a), base(b)]))
            ds = parse_diags(err)
            if not ds:
                res.undec('pair %s (%s): compiler failed without a diagnostic: %s' % (name, lang, err[-300:]))
                continue
            for sym, msg, fil in ds:
                pair_syms.add(sym)
                key = '%s:%s' % (pair, sym)
                if key in seen:
                    continue
                seen.add(key)
                res.violation(key, 'include/%s then include/%s (%s): %s: %s' % (a, b, lang, sym, msg))
    # 3. all headers together in several orders
    orders = [('directory order', list(hs)), ('reverse order', list(reversed(hs)))]
    rnd = random.Random(seed)
    for k in range(2 if tier != 'thorough' else 20):
        o = list(hs)
        rnd.shuffle(o)
        orders.append(('shuffled #%d (seed %d)' % (k, seed), o))
    jobs = []
    for oname, o in orders:
        for lang in LANGS:
            text = '#include <stddef.h>\n' + ('#include <type_traits>\n' if not is_c(lang) else '') + \
                ''.join('#include "%s"\n' % h for h in o) + UNDEF_SA
            for h in o:
                text += '\n'.join(assert_lines(h, alone[h]['facts'], lang, alone[h]['kinds'], alone[h]['absent'])) + '\n'
            jobs.append((oname, lang, text))
    with ThreadPoolExecutor(16) as ex:
        for name, lang, rc, err in ex.map(compile_unit, jobs):
            res.count('all-header units compiled (orders x language)')
            if rc == 0:
                res.ok()
                continue
            ds = parse_diags(err)
            new = [(s, m) for (s, m, f) in ds if s not in pair_syms]
            if not new:
                res.ok()    # every failure is one of the pairwise conflicts already reported above
                continue
            for s, m in new:
                key = 'all-headers:%s' % s
                if key in seen:
                    continue
                seen.add(key)
                res.violation(key, 'all %d headers in %s (%s): %s: %s' % (len(hs), name, lang, s, m))
    res.sample({'header_alone': 'avtp/acf/Can.h', 'facts': {k: v for k, v in list(sorted(alone['avtp/acf/Can.h']['facts'].items()))[:8]}})
    res.sample({'pair_unit': '#include "avtp/acf/Can.h" / #include "avtp/acf/CanBrief.h" + %d static assertions, C99 and C++17'
                % (len(alone['avtp/acf/Can.h']['facts']) + len(alone['avtp/acf/CanBrief.h']['facts']))})
    res.extra['headers'] = hs
    res.extra['exhaustive'] = True
    res.rule = ('each of the public headers alone (C99, C++17) yields its facts (enumerator values, integer macro values, record sizes, '
                'payload offsets, as folded by the compiler; in C++ also whether a name is an enumerator or a plain integer); every ordered pair of headers in both languages must compile with '
                '-Werror=macro-redefined and with every fact of both headers asserted; all headers together in directory, reverse and '
                'VERIF_SEED-shuffled orders may only fail with conflicts already found pairwise')
    build.cleanup()
    return res


def main(tier, seed):
    res = Result('C20', tier, 'proof', seed)
    return run(tier, res, seed)
