"""C07 - VSS messages are encoded exactly as the ACF-VSS description prescribes
(exact per shape, all contents symbolic; bounded in the two lengths)."""
from .. import bits as B
from .. import bpa
from .. import vss as V
from .. import fieldchecks as FC
from ..bpa import Ptr, Region
from ..par import pmap
from ..report import Result

CTX = None
SET_PATH = 'Avtp_Vss_SetVssPath'
SET_DATA = 'Avtp_Vss_SetVssData'


def shapes(tier):
    """(A) cross product over small sets of lengths, every datatype; (B) sweeps: every path length in a range with
    one scalar datatype, every data length in a range per variable-length datatype.  Byte-carry and sign boundaries
    (254..257, 510..513, 32767/8, 65534/5) are therefore covered, not sampled."""
    if tier == 'thorough':
        plens = list(range(0, 17)) + [31, 32, 33, 127, 128, 255, 256, 1000, 2026]
        counts = list(range(0, 9)) + [15, 16, 17, 130, 1024, 4096]
        slens = list(range(0, 9)) + [127, 128, 255, 256, 4096, 32767, 32768, 65534, 65535]
        psweep = range(0, 2027)
        dsweep = range(0, 2101)
        csweep = range(0, 140)
    else:
        plens = [0, 1, 2, 13, 128, 255]
        counts = [0, 1, 2, 3, 130]
        slens = [0, 1, 5, 128, 255, 256, 32768]
        psweep = list(range(0, 40)) + list(range(120, 136)) + list(range(250, 262)) + list(range(506, 518)) + \
            list(range(766, 771)) + list(range(1020, 1028)) + [1534, 1535, 1536, 2026]
        dsweep = list(range(0, 20)) + list(range(125, 131)) + list(range(253, 259)) + list(range(509, 515)) + \
            [1023, 1024, 32767, 65534, 65535]
        csweep = list(range(0, 20)) + [31, 32, 33, 63, 64, 65, 127, 128, 129]
    out = []
    seen = set()

    def add(x):
        if x not in seen:
            seen.add(x)
            out.append(x)
    for mode in (V.INTEROP, V.STATIC):
        for pl in (plens if mode == V.INTEROP else [0]):
            for code, (name, ew, kind) in sorted(V.DATATYPES.items()):
                if kind == 'scalar':
                    add((mode, pl, code, 1))
                elif kind == 'array':
                    for n in counts:
                        if n * ew <= 65535 and V.H + 2 + pl + 2 + n * ew <= 70000:
                            add((mode, pl, code, n))
                else:
                    for n in slens:
                        if V.H + 2 + pl + 2 + n <= 70000:
                            add((mode, pl, code, n))
    for pl in psweep:
        add((V.INTEROP, pl, 0x02, 1))          # uint16 scalar behind every path length
    for code, (name, ew, kind) in sorted(V.DATATYPES.items()):
        if kind == 'bytes':
            for n in dsweep:
                add((V.INTEROP, 13, code, n))
                if n < 300:
                    add((V.STATIC, 0, code, n))
        elif kind == 'array':
            for n in csweep:
                if n * ew <= 65535:
                    add((V.INTEROP, 13, code, n))
            # the largest arrays the 16-bit data-length prefix can announce (65535 // ew elements and one less):
            # 16-bit loop bounds and `length + 2` computations wrap exactly here
            top = 65535 // ew
            add((V.INTEROP, 13, code, top))
            if tier == 'thorough':
                add((V.INTEROP, 13, code, top - 1))
                add((V.STATIC, 0, code, top))
                add((V.INTEROP, 0, code, top))
    return out


def build(ctx, mode, plen, code, count, msg_size=None):
    """-> (regions factory, expected pdu image, total size)"""
    mod = ctx.mod
    name, ew, kind = V.DATATYPES[code]
    poff, ssz = V.ptr_off(mod)
    pw = V.path_wire_len(mode, plen)
    dw = V.data_wire_len(code, count)
    total = V.H + pw + dw if msg_size is None else msg_size
    exp = V.expected_image_base(V.PDU, total, mode, code)
    o = V.H
    if mode == V.STATIC:
        sid = bpa.sym_arg('sid', 32)
        for j, b in enumerate(V.be_bytes_of(sid, 4)):
            exp[o + j] = b
    else:
        for j, b in enumerate(V.be_bytes_of(plen, 2)):
            exp[o + j] = b
        for i in range(plen):
            exp[o + 2 + i] = V.In('pathbytes', i)
    o += pw
    if kind == 'scalar':
        dv = bpa.sym_arg('dv', ew * 8)
        for j, b in enumerate(V.be_bytes_of(dv, ew)):
            exp[o + j] = b
    else:
        nbytes = count * ew
        for j, b in enumerate(V.be_bytes_of(nbytes, 2)):
            exp[o + j] = b
        for k in range(count):
            for j, b in enumerate(V.host_elem_wire(mod, 'elems', k, ew)):
                exp[o + 2 + k * ew + j] = b

    def regions():
        r = {}
        pdu = Region(V.PDU, 'sym', total)
        V.header_precondition(pdu, mode, code)
        r[V.PDU] = pdu
        pobj = Region('pathobj', 'sym', ssz)
        if mode == V.STATIC:
            V.poke(mod, pobj, 0, 4, bpa.sym_arg('sid', 32))
        else:
            V.poke(mod, pobj, 0, 2, plen)
            V.poke_ptr(mod, pobj, poff, Ptr('pathbytes', 0))
            r['pathbytes'] = Region('pathbytes', 'sym', plen)
        r['pathobj'] = pobj
        val = Region('val', 'sym', 8)
        if kind == 'scalar':
            V.poke(mod, val, 0, ew, bpa.sym_arg('dv', ew * 8))
        else:
            V.poke_ptr(mod, val, 0, Ptr('arr', 0))
            arr = Region('arr', 'sym', ssz)
            V.poke(mod, arr, 0, 2, count * ew)
            V.poke_ptr(mod, arr, poff, Ptr('elems', 0))
            r['arr'] = arr
            r['elems'] = Region('elems', 'sym', count * ew)
        r['val'] = val
        return r
    return regions, exp, total


def _one(t):
    ctx = CTX
    mode, plen, code, count = t
    name = V.DATATYPES[code][0]
    regions, exp, total = build(ctx, mode, plen, code, count)

    def script(m, _):
        m.call(SET_PATH, [Ptr(V.PDU, 0), Ptr('pathobj', 0)])
        m.call(SET_DATA, [Ptr(V.PDU, 0), Ptr('val', 0)])
        return None
    ws = bpa.analyse(ctx.mod, script, lambda: ([], regions()), max_worlds=32, max_steps=12000000, gcache=ctx.gcache, oob_limit=0)
    desc = '%s path (%d octets) + %s x%d' % ('static-id' if mode == V.STATIC else 'interop', plen, name, count)
    key = 'encode:m%d:p%d:t%02x:n%d' % t
    where = FC.fnloc(ctx, SET_DATA)
    oks, err = FC.ok_worlds(ws)
    if err:
        df = FC.definite_fault(ws)
        if df:
            return [('violation', key + ':fault', '%s [%s]: %s' % (where, desc, df))], 0
        return [('undecided', key, '%s [%s]: %s' % (where, desc, err))], 0
    out = []
    for w in oks:
        with FC.with_world(w.decisions):
            st, text = V.compare_region(w.regions[V.PDU], exp)
        if st != 'ok':
            out.append((st, key + ':image', '%s [%s]: %s' % (where, desc, text)))
        oob = [o for o in w.oob]
        if oob:
            out.append(('violation', key + ':beyond', '%s [%s]: %s - outside the %d octets the message occupies / the caller\'s objects'
                        % (where, desc, FC.fmt_oob(oob[0]), total)))
        for rn in ('pathobj', 'pathbytes', 'val', 'arr', 'elems'):
            r = w.regions.get(rn)
            if r is not None and r.writes:
                out.append(('violation', key + ':caller-written', '%s [%s]: the caller\'s %s object is written while encoding' % (where, desc, rn)))
        if out:
            break
    return out, (0 if out else 1)


def _reserved(t):
    """reserved address modes / datatype codes write nothing"""
    ctx = CTX
    kind, mode, code = t
    mod = ctx.mod
    poff, ssz = V.ptr_off(mod)
    total = 64

    def regions():
        pdu = Region(V.PDU, 'sym', total)
        V.header_precondition(pdu, mode, code)
        pobj = Region('pathobj', 'sym', ssz)
        V.poke(mod, pobj, 0, 2, 5)
        V.poke_ptr(mod, pobj, poff, Ptr('pathbytes', 0))
        val = Region('val', 'sym', 8)
        return {V.PDU: pdu, 'pathobj': pobj, 'pathbytes': Region('pathbytes', 'sym', 5), 'val': val}
    fn = SET_PATH if kind == 'mode' else SET_DATA
    arg = 'pathobj' if kind == 'mode' else 'val'
    ws = bpa.analyse(mod, fn, lambda: ([Ptr(V.PDU, 0), Ptr(arg, 0)], regions()), max_worlds=4, gcache=ctx.gcache)
    key = 'reserved:%s:m%d:t%02x' % t
    where = FC.fnloc(ctx, fn)
    out = []
    for w in ws:
        if w.status == 'infeasible':
            continue
        if w.status != 'ok':
            # a reserved code leading into an undecidable path is itself suspicious, but not a verdict
            out.append(('undecided', key, '%s (reserved %s): %s' % (where, kind, w.reason)))
            continue
        wr = sorted(w.regions[V.PDU].writes)
        if wr:
            what = 'address mode %d' % mode if kind == 'mode' else 'datatype code 0x%02x' % code
            out.append(('violation', key + ':writes', '%s: with the reserved %s the message octets %s are written; reserved values must write nothing'
                        % (where, what, wr[:8])))
    return out, (0 if out else 1)


def run(ctx, tier, res, tag=''):
    global CTX
    CTX = ctx
    ctx.facts()
    for fn in (SET_PATH, SET_DATA):
        ctx.fn(fn)
    sh = shapes(tier)
    # light shapes first; the heavy ones (messages of several thousand octets) only if the light ones hold - on a
    # broken tree they fail the same way and cost minutes each, and the verdict is a violation already
    def weight(t):
        return V.path_wire_len(t[0], t[1]) + V.data_wire_len(t[2], t[3])
    light = [t for t in sh if weight(t) <= 4096]
    heavy = [t for t in sh if weight(t) > 4096]
    outs1 = pmap(_one, light)
    if any(issues for (issues, n_ok) in outs1) and heavy:
        res.notes.append('%d large %s shapes were not analysed%s: smaller shapes already fail' % (len(heavy), 'encode', tag))
        sh, outs = light, outs1
    else:
        sh, outs = light + heavy, outs1 + pmap(_one, heavy)
    for t, (issues, n_ok) in zip(sh, outs):
        res.count('encode shapes analysed (mode x path length x datatype x count)' + tag)
        res.ok(n_ok)
        for (st, key, text) in issues:
            if st == 'violation':
                res.violation(key + tag, text)
            else:
                res.undec(text)
        if n_ok and t in ((V.INTEROP, 13, 0x82, 3), (V.STATIC, 0, 0x0A, 1), (V.INTEROP, 1, 0x8B, 5)):
            res.sample({'address_mode': 'static-id' if t[0] else 'interop', 'path_octets': t[1], 'datatype': V.DATATYPES[t[2]][0],
                        'count': t[3], 'message_octets': V.H + V.path_wire_len(t[0], t[1]) + V.data_wire_len(t[2], t[3]),
                        'verdict': 'image = reference encoding over symbolic path/value bytes; every other octet keeps its entry value'})
    rs = [('mode', 2, 0x02), ('mode', 3, 0x02)]
    codes = [c for c in range(256) if c not in V.DATATYPES]
    if tier != 'thorough':
        codes = [0x0C, 0x10, 0x7F, 0x8C, 0xC0, 0xFF]
    for c in codes:
        for m in (V.INTEROP, V.STATIC):
            rs.append(('type', m, c))
    routs = pmap(_reserved, rs)
    for t, (issues, n_ok) in zip(rs, routs):
        res.count('reserved mode/datatype cases analysed' + tag)
        res.ok(n_ok)
        for (st, key, text) in issues:
            if st == 'violation':
                res.violation(key + tag, text)
            else:
                res.undec(text)
    res.extra['bound' + tag] = 'path lengths and element counts are enumerated (see rule); contents are universally quantified'
    from .. import promises
    promises.report(ctx, res, [SET_PATH, SET_DATA], promises.MEMORY_KINDS, tag)
    res.rule = ('per shape (address mode, path length in {0,1,2,13,128,255} [thorough: 0..16,31..33,127,128,255,256,1000,2026], each of the 24 datatypes, element '
                'count in {0,1,2,3,130} [0..8,15..17,130,1024,4096] / string length {0,1,5,128,255,256,32768} [0..8,127,128,255,256,4096,32767,32768,65535]): SetVssPath then SetVssData interpreted on an exact-extent message region whose header pins '
                'only addr_mode and vss_datatype, with symbolic path bytes, static id and values; final image must equal the reference '
                'encoder (acf-vss.md) and nothing else may change; reserved modes/codes must write nothing')
    res.assumptions.append('uniformity in the two lengths is not proved: the verdict is exact for each enumerated shape')
    return res


def main(tier, seed):
    from ..ctx import run_all_configs
    res = Result('C07', tier, 'proof', seed)
    return run_all_configs(run, tier, res, strict=True)
