"""C14 - wire bytes do not depend on host endianness: every obligation of
C01, C02, C04 (and of the builders / VSS codec, where their checks exist) is
discharged again on IR compiled for big-endian hosts.  The specs speak about
wire octets and host *values*, so holding on both byte orders is the property."""
import importlib

from ..ctx import Ctx
from ..report import Result

PORTABLE = ['c01', 'c02', 'c04', 'c06', 'c09', 'c07', 'c08', 'c10']


def main(tier, seed):
    res = Result('C14', tier, 'proof', seed)
    # quick: the 32-bit big-endian target (ILP32: 32-bit long, size_t and pointers) for the field accessors, the CAN
    # builders and the VSS finaliser only; thorough: everything on both targets
    # sparc (big-endian, traps on misaligned accesses: byte-wise fallbacks for strict-alignment hosts are live there) for
    # the VSS codec, whose 16-bit length prefixes are the library's only byte-aligned multi-octet values
    targets = [('be', PORTABLE), ('be32', PORTABLE if tier == 'thorough' else ['c01', 'c02', 'c04', 'c06', 'c09']),
               ('be32s', ['c07', 'c08', 'c10'])]
    inner = 'thorough' if tier == 'thorough' else 'quick'
    for tg, names in targets:
        # mips is compiled the way GCC presents itself there: __GNUC__ = 12 and no __BIG_ENDIAN__ (GCC for MIPS, s390x,
        # SPARC, m68k defines __BYTE_ORDER__ and target-specific macros only; clang adds __BIG_ENDIAN__ everywhere)
        # powerpc64 presents itself as GCC 12 too (an LP64 target on which `#if __GNUC__ >= 5 && __LP64__` code is live)
        ctx = Ctx(tg, extra=('-fgnuc-version=12.2.0',), suffix='_gcc') if tg == 'be' else \
            Ctx(tg, extra=('-fgnuc-version=12.2.0', '-U__BIG_ENDIAN__'), suffix='_gcclike') if tg == 'be32' else \
            Ctx(tg, suffix='_strict')
        if not ctx.mod.big_endian:
            from ..report import Broken
            raise Broken('target %s is not big-endian' % tg)
        res.count('big-endian targets analysed')
        for name in names:
            try:
                m = importlib.import_module('verif.checks.' + name)
            except ImportError:
                continue
            if not hasattr(m, 'run'):
                continue
            before = len(res.violations)
            m.run(ctx, inner, res, tag=':' + tg)
            for v in res.violations[before:]:
                v['text'] = '[%s host, %s] %s' % (ctx.mod.triple, name.upper(), v['text'])
    res.rule = ('every obligation of C01/C02/C04/C06/C09 (+C07/C08/C10) re-evaluated on IR for powerpc64 (big-endian, 64-bit; '
                'mips - big-endian, ILP32 - for C01/C02/C04/C06/C09, thorough for all; sparc - big-endian, strict alignment - for C07/C08/C10); the little-endian results are the C01.. checks themselves')
    res.assumptions.append('powerpc64, mips and sparc IR is representative of big-endian hosts; libc headers are replaced by declarations in stubs/libc')
    return res
