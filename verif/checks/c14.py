"""C14 - wire bytes do not depend on host endianness: every obligation of
C01, C02, C04 (and of the builders / VSS codec, where their checks exist) is
discharged again on IR compiled for big-endian hosts.  The specs speak about
wire octets and host *values*, so holding on both byte orders is the property."""
import importlib

from ..ctx import Ctx
from ..report import Result

PORTABLE = ['c01', 'c02', 'c04', 'c06', 'c09', 'c07', 'c08', 'c10']


def main(tier, seed):
    res = Result('C14', tier, 'proof', seed)
    targets = ['be'] + (['be32'] if tier == 'thorough' else [])
    inner = 'thorough' if tier == 'thorough' else 'quick'
    for tg in targets:
        ctx = Ctx(tg)
        if not ctx.mod.big_endian:
            from ..report import Broken
            raise Broken('target %s is not big-endian' % tg)
        res.count('big-endian targets analysed')
        for name in PORTABLE:
            try:
                m = importlib.import_module('verif.checks.' + name)
            except ImportError:
                continue
            if not hasattr(m, 'run'):
                continue
            before = len(res.violations)
            m.run(ctx, inner, res, tag=':' + tg)
            for v in res.violations[before:]:
                v['text'] = '[%s host, %s] %s' % (ctx.mod.triple, name.upper(), v['text'])
    res.rule = ('every obligation of C01/C02/C04/C06/C09 (+C07/C08/C10) re-evaluated on IR for powerpc64 (big-endian, 64-bit; '
                'thorough adds mips, big-endian, 32-bit pointers); the little-endian results are the C01.. checks themselves')
    res.assumptions.append('powerpc64 (and mips) IR is representative of big-endian hosts; libc headers are replaced by declarations in stubs/libc')
    return res
