"""C12 - legacy and current APIs are interchangeable."""
import os

from .. import bits as B
from .. import bpa, build, irparse
from .. import fieldchecks as FC
from ..bpa import Ptr, Region
from ..ctx import load_spec
from ..par import pmap
from ..report import Result, Broken

CTX = None
VAL = 'val'


def extra_facts(ctx, leg):
    """Compile the alias / legacy-layout expressions; -> {name: value}"""
    d = os.path.join(ctx.workdir, 'legacy_' + ctx.target)
    os.makedirs(d, exist_ok=True)
    srcs = []
    byhdr = {}
    for a in leg['aliases']:
        byhdr.setdefault(a['header'], []).append(a)
    for k, (hdr, als) in enumerate(sorted(byhdr.items())):
        lines = ['#include <stddef.h>', '#include "%s"' % hdr, 'typedef unsigned long long verif_u64;']
        # a legacy name may be a macro or (equally usable) an enumerator: no #ifdef - names the compiler reports as
        # undeclared are dropped from the unit and come out as "no longer defined"
        body = []
        for a in als:
            body.append((a['macro'], ['const verif_u64 verif_alias_%s = (verif_u64)(%s);' % (a['macro'], a['macro']),
                                      # as an operand without parentheses of ours (an expansion `A + 1` would change value here)
                                      'const verif_u64 verif_aliasop_%s = (verif_u64)(7 * %s * 3) + 1000000ULL * (verif_u64)(5000 + - %s);'
                                      % (a['macro'], a['macro'], a['macro'])]))
        p = os.path.join(d, 'alias_%d.c' % k)
        for attempt in range(8):
            open(p, 'w').write('\n'.join(lines + [l for (_, ls) in body for l in ls]) + '\n')
            rc, so, se = build.run([build.CLANG, '-fsyntax-only', '-std=gnu99', '-ferror-limit=0', '-Wno-everything',
                                    '-I', os.path.join(build.REPO, 'include'), p] + build.TARGETS[ctx.target])
            if rc == 0:
                break
            import re as _re
            gone = set(_re.findall(r"use of undeclared identifier '(\w+)'", se))
            nb = [(m_, ls) for (m_, ls) in body if m_ not in gone]
            if len(nb) == len(body):
                break
            body = nb
        srcs.append(p)
    # the same alias macros with every other public header included first: a legacy name must designate the same
    # field whatever else the translation unit uses (pairs that do not compile at all are C20's business)
    from .c20 import headers as all_headers
    combos = []
    for k, (hdr, als) in enumerate(sorted(byhdr.items())):
        for j, other in enumerate(all_headers()):
            if other == hdr:
                continue
            lines = ['#include <stddef.h>', '#include "%s"' % other, '#include "%s"' % hdr, 'typedef unsigned long long verif_u64;']
            for a in als:
                # no #ifdef here: with another header first the name may have become something that is not a macro
                lines.append('const verif_u64 verif_alias2_%d_%d_%s = (verif_u64)(%s);' % (k, j, a['macro'], a['macro']))
            p = os.path.join(d, 'alias2_%d_%d.c' % (k, j))
            open(p, 'w').write('\n'.join(lines) + '\n')
            combos.append((p, other, hdr))
    for k, l in enumerate(leg['layout']):
        lines = ['#include <stddef.h>'] + ['#include "%s"' % h for h in l['headers']]
        lines.append('const unsigned long long verif_layout_%d = (unsigned long long)(%s);' % (k, l['expr']))
        p = os.path.join(d, 'layout_%d.c' % k)
        open(p, 'w').write('\n'.join(lines) + '\n')
        srcs.append(p)
    _, std = build.library_units()
    facts = {}
    errors = {}
    # compile one by one so that a single missing legacy name is reported as such
    for s in srcs:
        try:
            bcs = build.compile_units([s], os.path.join(d, 'bc'), target=ctx.target, std=std, debug=False)
        except build.BuildError as e:
            errors[os.path.basename(s)] = str(e)
            continue
        ll = bcs[0][:-3] + '.ll'
        build.link_ll(bcs, ll)
        m = irparse.parse_module(open(ll).read(), ll)
        for name, g in m.globals.items():
            if name.startswith('verif_') and g.init is not None:
                facts[name] = (g.init[1] & ((1 << 64) - 1)) if g.init[0] == 'c' else 0
    # combos: compiled in parallel, failures ignored
    from concurrent.futures import ThreadPoolExecutor

    def one(c):
        p, other, hdr = c
        try:
            bcs = build.compile_units([p], os.path.join(d, 'bc2'), target=ctx.target, std=std, debug=False)
        except build.BuildError:
            return None
        ll = bcs[0][:-3] + '.ll'
        build.link_ll(bcs, ll)
        m = irparse.parse_module(open(ll).read(), ll)
        out = {}
        for name, g in m.globals.items():
            if name.startswith('verif_alias2_') and g.init is not None:
                out[name] = ((g.init[1] & ((1 << 64) - 1)) if g.init[0] == 'c' else 0, other, hdr)
        return out
    with ThreadPoolExecutor(8) as ex:
        for r in ex.map(one, combos):
            if r:
                facts.update(r)
    return facts, errors


def val_bits(ctx, fn):
    return ctx.mod.sizeof(fn.params[2][0][1]) * 8


def mem_value(ctx, region, nbytes):
    """value stored at offset 0 of `region` as an integer of nbytes octets, or None if not fully written"""
    bs = []
    for i in range(nbytes):
        if i not in region.mem:
            return None
        bs.append(B.to_bits(region.mem[i], 8))
    if ctx.mod.big_endian:
        bs = bs[::-1]
    out = []
    for b in bs:
        out.extend(b)
    return B.norm(out)


def pdu_image(region, n):
    return [region.mem[i] if i in region.mem else tuple(('I', FC.PDU, i, b) for b in range(8)) for i in range(n)]


def _task(t):
    ctx = CTX
    mod = ctx.mod
    kind, fmt, idx = t
    f = ctx.formats[fmt]
    leg = f['legacy']
    hl = FC.region_len(ctx, f)
    out = []
    if kind == 'get':
        fld = f['fields'][idx]
        fname = leg['get']
        fn = ctx.fn(fname)
        W = FC.param_width(mod, fn, 1)
        ev = ctx.enum_value(fld['enum']) & B.mask(W)
        vb = val_bits(ctx, fn)
        ws = bpa.analyse(mod, fname, lambda: ([Ptr(FC.PDU, 0), ev, Ptr(VAL, 0)],
                                              {FC.PDU: Region(FC.PDU, 'sym', hl), VAL: Region(VAL, 'sym', vb // 8)}),
                         max_worlds=16, gcache=ctx.gcache)
        gfn = ctx.fn(f['get_field'])
        Wg = FC.param_width(mod, gfn, 1)
        cur = bpa.analyse(mod, f['get_field'], lambda: ([Ptr(FC.PDU, 0), ctx.enum_value(fld['enum']) & B.mask(Wg)],
                                                        {FC.PDU: Region(FC.PDU, 'sym', hl)}), max_worlds=16, gcache=ctx.gcache)
        where = FC.fnloc(ctx, fname)
        key = '%s:legacy-get:%s' % (fmt, fld['name'])
        wl, e1 = FC.ok_worlds(ws)
        wc, e2 = FC.ok_worlds(cur)
        if e1 or e2:
            return [('undecided', key, '%s field %s: %s' % (where, fld['enum'], e1 or e2))]
        res_ok = None
        for w, c, dec in FC.world_pairs(wl, wc):
            with FC.with_world(dec):
                r1 = _cmp_get(ctx, f, fld, fname, where, key, vb, w, c)
            if r1[0][0] != 'ok':
                return r1
            res_ok = r1
        return res_ok or [('undecided', key, '%s field %s: no feasible combination of worlds' % (where, fld['enum']))]
    return _task_rest(t, ctx, mod, kind, fmt, idx, f, leg, hl)


def _cmp_get(ctx, f, fld, fname, where, key, vb, w, c):
        mod = ctx.mod
        got = mem_value(ctx, w.regions[VAL], vb // 8)
        if got is None:
            return [('violation', key + ':unset', '%s: field %s: the result variable is not (fully) written on success' % (where, fld['enum']))]
        R = FC.ret_width(mod, ctx.fn(f['get_field']))
        want = B.to_bits(c.ret, R)
        want = tuple(want[:vb]) + (0,) * max(0, vb - R)
        st, info = FC.compare_vec(got, want, vb)
        if st == 'differs':
            i, wit = info
            return [('violation', key + ':value',
                     '%s: field %s: bit %d of the value stored by the legacy reader is %s but %s returns %s; witness buffer: %s'
                     % (where, fld['enum'], i, B.fmt_term(B.to_bits(got, vb)[i]), f['get_field'], B.fmt_term(want[i]), FC.fmt_env(wit)))]
        if st == 'unknown':
            return [('undecided', key, '%s field %s: bit %d undetermined' % (where, fld['enum'], info))]
        if w.ret != 0:
            return [('violation', key + ':ret', '%s: field %s: returns %r for valid arguments' % (where, fld['enum'], w.ret))]
        if w.regions[FC.PDU].writes:
            return [('violation', key + ':writes', '%s: field %s: the legacy reader writes the PDU' % (where, fld['enum']))]
        return [('ok', key, {'legacy': fname, 'current': f['get_field'], 'field': fld['enum'],
                             'stored_value': B.fmt_vec(got, vb) if fld['width'] <= 8 else '(%d PDU bits, identical)' % fld['width']})]


def _task_rest(t, ctx, mod, kind, fmt, idx, f, leg, hl):
    out = []
    if kind == 'set':
        fld = f['fields'][idx]
        fname = leg['set']
        fn = ctx.fn(fname)
        W = FC.param_width(mod, fn, 1)
        ev = ctx.enum_value(fld['enum']) & B.mask(W)
        Pl = FC.param_width(mod, fn, 2)
        ws = bpa.analyse(mod, fname, lambda: ([Ptr(FC.PDU, 0), ev, bpa.sym_arg('v', Pl)], {FC.PDU: Region(FC.PDU, 'sym', hl)}),
                         max_worlds=16, gcache=ctx.gcache)
        cfn = ctx.fn(f['set_field'])
        Wc = FC.param_width(mod, cfn, 1)
        Pc = FC.param_width(mod, cfn, 2)
        v = bpa.sym_arg('v', Pl)
        vc = tuple(v[:Pc]) + (0,) * max(0, Pc - Pl)
        cs = bpa.analyse(mod, f['set_field'], lambda: ([Ptr(FC.PDU, 0), ctx.enum_value(fld['enum']) & B.mask(Wc), vc],
                                                       {FC.PDU: Region(FC.PDU, 'sym', hl)}), max_worlds=16, gcache=ctx.gcache)
        where = FC.fnloc(ctx, fname)
        key = '%s:legacy-set:%s' % (fmt, fld['name'])
        wl, e1 = FC.ok_worlds(ws)
        wc, e2 = FC.ok_worlds(cs)
        if e1 or e2:
            return [('undecided', key, '%s field %s: %s' % (where, fld['enum'], e1 or e2))]
        npairs = 0
        for wA, wB, dec in FC.world_pairs(wl, wc):
            npairs += 1
            with FC.with_world(dec):
                n = max([hl] + [o + 1 for o in wA.regions[FC.PDU].writes | wB.regions[FC.PDU].writes])
                a = pdu_image(wA.regions[FC.PDU], n)
                b = pdu_image(wB.regions[FC.PDU], n)
                for o in range(n):
                    st, info = FC.compare_vec(a[o], B.to_bits(b[o], 8), 8)
                    if st == 'differs':
                        return [('violation', key + ':bytes',
                                 '%s: field %s: octet %d after the legacy write is %s, after %s it is %s; witness: %s'
                                 % (where, fld['enum'], o, B.fmt_vec(a[o], 8), f['set_field'], B.fmt_vec(b[o], 8), FC.fmt_env(info[1])))]
                    if st == 'unknown':
                        return [('undecided', key, '%s field %s: octet %d undetermined' % (where, fld['enum'], o))]
            if wA.ret != 0:
                return [('violation', key + ':ret', '%s: field %s: returns %r for valid arguments' % (where, fld['enum'], wA.ret))]
        if not npairs:
            return [('undecided', key, '%s field %s: no feasible combination of worlds' % (where, fld['enum']))]
        return [('ok', key, None)]
    if kind == 'init':
        fname = leg['init']
        fn = ctx.fn(fname)
        extra = leg.get('init_extra_arg')
        where = FC.fnloc(ctx, fname)
        key = '%s:legacy-init' % fmt
        if extra:
            P = FC.param_width(mod, fn, 1)
            largs = lambda: [Ptr(FC.PDU, 0), bpa.sym_arg('fs', P)]
            byname = {x['name']: x for x in f['fields']}
            setter = byname[extra]['setter']
            sfn = ctx.fn(setter)
            Ps = FC.param_width(mod, sfn, 1)

            def script(m, args):
                m.call(f['init']['fn'], [Ptr(FC.PDU, 0)])
                fs = bpa.sym_arg('fs', P)
                m.call(setter, [Ptr(FC.PDU, 0), tuple(fs[:Ps]) + (0,) * max(0, Ps - P)])
                return None
            cur = script
        else:
            largs = lambda: [Ptr(FC.PDU, 0)]
            cur = f['init']['fn']
        ws = bpa.analyse(mod, fname, lambda: (largs(), {FC.PDU: Region(FC.PDU, 'sym', hl)}), max_worlds=16, gcache=ctx.gcache)
        cs = bpa.analyse(mod, cur, lambda: ([Ptr(FC.PDU, 0)], {FC.PDU: Region(FC.PDU, 'sym', hl)}), max_worlds=16, gcache=ctx.gcache)
        wl, e1 = FC.ok_worlds(ws)
        wc, e2 = FC.ok_worlds(cs)
        if e1 or e2:
            return [('undecided', key, '%s: %s' % (where, e1 or e2))]
        n = hl
        for wA, wB, dec in FC.world_pairs(wl, wc):
            with FC.with_world(dec):
                n = max([hl] + [o + 1 for o in wA.regions[FC.PDU].writes | wB.regions[FC.PDU].writes])
                a = pdu_image(wA.regions[FC.PDU], n)
                b = pdu_image(wB.regions[FC.PDU], n)
                for o in range(n):
                    st, info = FC.compare_vec(a[o], B.to_bits(b[o], 8), 8)
                    if st == 'differs':
                        return [('violation', key + ':bytes',
                                 '%s: octet %d after the legacy initialiser is %s, after %s%s it is %s; witness: %s'
                                 % (where, o, B.fmt_vec(a[o], 8), f['init']['fn'], ' + ' + extra + ' setter' if extra else '',
                                    B.fmt_vec(b[o], 8), FC.fmt_env(info[1])))]
                    if st == 'unknown':
                        return [('undecided', key, '%s: octet %d undetermined' % (where, o))]
            if wA.ret != 0:
                return [('violation', key + ':ret', '%s: returns %r for a valid PDU' % (where, wA.ret))]
        return [('ok', key, {'legacy': fname, 'current': f['init']['fn'] + (' then ' + extra if extra else ''),
                             'verdict': 'identical %d-octet image' % n})]
    raise ValueError(kind)


def run(ctx, tier, res, tag=''):
    global CTX
    CTX = ctx
    facts = ctx.facts()
    leg = load_spec('legacy.json')
    xf, errors = extra_facts(ctx, leg)
    for name, e in sorted(errors.items()):
        res.undec('legacy name missing - unit %s does not compile: %s' % (name, e.strip().split('\n')[-1][:300]))
    for a in leg['aliases']:
        res.count('alias macros compared')
        f = ctx.formats[a['format']]
        got = xf.get('verif_alias_' + a['macro'])
        if a['field'] is None:
            want = facts.get('verif_max_' + a['format'])
            wname = f['enum_max']
        else:
            fld = [x for x in f['fields'] if x['name'] == a['field']][0]
            want = ctx.enum_value(fld['enum'])
            wname = fld['enum']
        where = 'include/%s' % a['header']
        if got is None:
            if not errors:
                res.violation('alias:%s:missing' % a['macro'], '%s: legacy name %s is no longer defined' % (where, a['macro']))
            continue
        if got != want:
            hit = [x['enum'] for x in f['fields'] if ctx.enum_value(x['enum']) == got]
            res.violation('alias:%s' % a['macro'], '%s: legacy name %s evaluates to %d (%s) but must designate %s = %d (field %s)'
                          % (where, a['macro'], got, ', '.join(hit) or 'no field', wname, want, a['field']))
        else:
            op = xf.get('verif_aliasop_' + a['macro'])
            if op is not None and op != 21 * want + 1000000 * (5000 - want):
                res.violation('alias:%s:operand' % a['macro'], '%s: legacy name %s is %d on its own but 7 * %s * 3 / 5000 + - %s do not evaluate '
                              'to %d / %d: the alias does not expand to a primary expression, so it is not interchangeable with %s inside '
                              'an expression' % (where, a['macro'], got, a['macro'], a['macro'], 21 * want, 5000 - want, wname))
            else:
                res.ok()
    # aliases in combination with every other header
    bymacro = {a['macro']: a for a in leg['aliases']}
    for name, v in sorted(xf.items()):
        if not name.startswith('verif_alias2_') or not isinstance(v, tuple):
            continue
        val, other, hdr = v
        macro = name.split('_', 4)[4]
        a = bymacro.get(macro)
        if a is None:
            continue
        f = ctx.formats[a['format']]
        if a['field'] is None:
            want = facts.get('verif_max_' + a['format'])
        else:
            want = ctx.enum_value([x for x in f['fields'] if x['name'] == a['field']][0]['enum'])
        res.count('alias macros compared with another header included first')
        if val != want:
            res.violation('alias-after:%s:%s' % (os.path.basename(other), macro),
                          'include/%s: legacy name %s evaluates to %d instead of %d when include/%s is included first: it no longer designates field %s'
                          % (hdr, macro, val, want, other, a['field']))
        else:
            res.ok()
    res.sample({'alias': 'AVTP_AAF_FIELD_CHAN_PER_FRAME', 'evaluates_to': xf.get('verif_alias_AVTP_AAF_FIELD_CHAN_PER_FRAME'),
                'current_enumerator': 'AVTP_PCM_FIELD_CHANNELS_PER_FRAME'})
    for k, l in enumerate(leg['layout']):
        res.count('legacy layout facts evaluated')
        got = xf.get('verif_layout_%d' % k)
        if got is None:
            continue
        if got != l['expect']:
            res.violation('legacy-layout:%s' % l['expr'].replace(' ', ''), 'include/%s: %s is %d, expected %d'
                          % (l['headers'][-1], l['expr'], got, l['expect']))
        else:
            res.ok()
    ts = []
    for f in ctx.spec['formats']:
        if not f.get('legacy'):
            continue
        for i in range(len(f['fields'])):
            ts.append(('get', f['format'], i))
            ts.append(('set', f['format'], i))
        if f['legacy'].get('init'):
            ts.append(('init', f['format'], None))
    outs = pmap(_task, ts)
    for t, o in zip(ts, outs):
        res.count('legacy/current pairs compared (%s)' % t[0])
        for (st, key, info) in o:
            if st == 'ok':
                res.ok()
                if info and (t[0] == 'init' or len(res.samples) < 5):
                    res.sample(info, limit=10)
            elif st == 'violation':
                res.violation(key + tag, info)
            else:
                res.undec(info)
    from .. import promises
    promises.report(ctx, res, [v for f in ctx.spec['formats'] if f.get('legacy') for k, v in f['legacy'].items() if k in ('get', 'set', 'init')],
                    promises.MEMORY_KINDS, tag)
    res.rule = ('for the five legacy formats and every field: the value the deprecated reader stores (read back through the target '
                'datalayout) must be bit-identical to the current reader, the PDU image after the deprecated writer/initialiser '
                'identical to the current one, over symbolic buffers and values; alias macros and packed legacy structures are '
                'evaluated by the compiler and compared with the current enumerators / header types')
    return res


def main(tier, seed):
    from ..ctx import run_all_configs
    res = Result('C12', tier, 'proof', seed)
    return run_all_configs(run, tier, res)
