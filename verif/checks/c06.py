"""C06 - ACF-CAN message builders emit a well-formed, exactly padded message."""
from .. import bits as B
from .. import bpa
from .. import fieldchecks as FC
from ..bpa import Ptr, Region
from ..par import pmap
from ..report import Result

CTX = None
PL = 'pl'

BUILDERS = {
    'Can': {'build': 'Avtp_Can_CreateAcfMessage', 'finalize': 'Avtp_Can_Finalize', 'set_payload': 'Avtp_Can_SetPayload',
            'payload_len': 'Avtp_Can_GetCanPayloadLength', 'returns_len': False},
    'CanBrief': {'build': 'Avtp_CanBrief_SetPayload', 'finalize': 'Avtp_CanBrief_Finalize', 'set_payload': None,
                 'payload_len': None, 'returns_len': True},
}


def fld(f, name):
    return [x for x in f['fields'] if x['name'] == name][0]


def put_const(exp, f, name, value):
    x = fld(f, name)
    w = x['width']
    for hb in FC.field_bits(x):
        j = x['bit'] + w - 1 - hb
        exp[hb // 8][7 - hb % 8] = (value >> j) & 1


def put_bits(exp, f, name, bits):
    x = fld(f, name)
    w = x['width']
    for hb in FC.field_bits(x):
        j = x['bit'] + w - 1 - hb
        exp[hb // 8][7 - hb % 8] = bits[j] if j < len(bits) else 0


def expected_message(f, H, L, variant, with_id=True):
    pad = (4 - L % 4) % 4
    total = H + L + pad
    exp = [[('I', FC.PDU, o, b) for b in range(8)] for o in range(total)]
    put_const(exp, f, 'acf_msg_length', total // 4)
    put_const(exp, f, 'pad', pad)
    if with_id:
        idb = bpa.sym_arg('id', 32)
        put_bits(exp, f, 'can_identifier', idb)
        put_bits(exp, f, 'eff', [B.make_any(idb[11:])])
        put_const(exp, f, 'fdf', variant)
        for i in range(L):
            exp[H + i] = [('I', PL, i, b) for b in range(8)]
    for i in range(pad):
        exp[H + L + i] = [0] * 8
    return exp, total, pad


def compare_image(region, exp, total):
    for o in range(total):
        act = region.mem.get(o)
        actb = tuple(('I', FC.PDU, o, b) for b in range(8)) if act is None else B.to_bits(act, 8) \
            if not (isinstance(act, tuple) and act and act[0] == 'P') else (B.TOP,) * 8
        e = tuple(exp[o])
        if actb == e:
            continue
        st, info = FC.compare_vec(actb, e, 8)
        if st == 'eq':
            continue
        if st == 'differs':
            return 'violation', 'octet %d is %s, expected %s; witness: %s' % (o, B.fmt_vec(actb, 8), B.fmt_vec(e, 8), FC.fmt_env(info[1]))
        if st == 'unknown':
            return 'undecided', 'octet %d bit %d undetermined' % (o, info)
    return 'ok', None


def _one(t):
    ctx = CTX
    mod = ctx.mod
    fmt, L, variant = t
    f = ctx.formats[fmt]
    b = BUILDERS[fmt]
    H = f['header_len']
    fn = ctx.fn(b['build'])
    exp, total, pad = expected_message(f, H, L, variant)
    Wl = FC.param_width(mod, fn, 3)
    Wv = FC.param_width(mod, fn, 4)
    out = []
    n_ok = 0
    key = '%s:build:L%d:v%d' % (fmt, L, variant)
    where = FC.fnloc(ctx, b['build'])
    if L >= (1 << Wl):
        return [], 0

    def regs():
        return {FC.PDU: Region(FC.PDU, 'sym', total), PL: Region(PL, 'sym', L)}

    def args():
        return [Ptr(FC.PDU, 0), bpa.sym_arg('id', 32), Ptr(PL, 0), L, variant & B.mask(Wv)]
    ws = bpa.analyse(mod, b['build'], lambda: (args(), regs()), max_worlds=64, max_steps=800000, gcache=ctx.gcache)
    oks, err = FC.ok_worlds(ws)
    if err:
        df = FC.definite_fault(ws)
        if df:
            return [('violation', key + ':fault', '%s (payload %d, variant %d): %s' % (where, L, variant, df))], 0
        return [('undecided', key, '%s (payload %d, variant %d): %s' % (where, L, variant, err))], 0
    for w in oks:
        with FC.with_world(w.decisions):
            st, text = compare_image(w.regions[FC.PDU], exp, total)
        if st != 'ok':
            out.append((st, key + ':image', '%s: payload length %d, %s: %s' % (where, L, 'FD' if variant else 'classic', text)))
        if w.oob:
            out.append(('violation', key + ':beyond', '%s: payload length %d: %s - beyond the padded message of %d octets'
                        % (where, L, FC.fmt_oob(w.oob[0]), total)))
        if w.regions[PL].writes:
            out.append(('violation', key + ':payload-written', '%s: the caller\'s payload buffer is written' % where))
        if b['returns_len'] and w.ret != total:
            out.append(('violation', key + ':ret', '%s: payload length %d: returns %r, the padded message has %d octets'
                        % (where, L, w.ret, total)))
        if out:
            break
    if L == 0 and not out:
        # a payload of 0 octets has no bytes to point to: a null payload pointer must give the same message
        def args0():
            return [Ptr(FC.PDU, 0), bpa.sym_arg('id', 32), bpa.NULL, 0, variant & B.mask(Wv)]
        ws0 = bpa.analyse(mod, b['build'], lambda: (args0(), regs()), max_worlds=64, max_steps=800000, gcache=ctx.gcache)
        oks0, err0 = FC.ok_worlds(ws0)
        if err0:
            nd = [w for w in ws0 if any(n[0] == 'null-deref' for n in w.notes)]
            if nd:
                out.append(('violation', key + ':null-payload', '%s: an empty payload given as (NULL, 0) dereferences the null '
                            'pointer: %s' % (where, nd[0].reason)))
            else:
                out.append(('undecided', key + ':null-payload', '%s (empty payload as NULL, 0): %s' % (where, err0)))
        for w in oks0:
            with FC.with_world(w.decisions):
                st, text = compare_image(w.regions[FC.PDU], exp, total)
            if st != 'ok':
                out.append((st, key + ':null-payload', '%s: empty payload given as (NULL, 0), %s: %s - a payload of 0 octets must '
                            'build the same message whatever the pointer' % (where, 'FD' if variant else 'classic', text)))
            elif b['returns_len'] and w.ret != total:
                out.append(('violation', key + ':null-payload:ret', '%s: empty payload given as (NULL, 0): returns %r, the padded '
                            'message has %d octets' % (where, w.ret, total)))
            if out:
                break
    if not out:
        n_ok += 3 if b['returns_len'] else 2
    # payload length read back
    if b['payload_len'] and L <= 64:
        def script(m, _):
            m.call(b['build'], args())
            return m.call(b['payload_len'], [Ptr(FC.PDU, 0)])
        ws2 = bpa.analyse(mod, script, lambda: ([], regs()), max_worlds=64, max_steps=800000, gcache=ctx.gcache)
        oks2, err2 = FC.ok_worlds(ws2)
        if err2:
            out.append(('undecided', key, '%s after build: %s' % (b['payload_len'], err2)))
        else:
            Rl = FC.ret_width(mod, ctx.fn(b['payload_len']))
            badrb = None
            for x in oks2:
                with FC.with_world(x.decisions):
                    st, info = FC.compare_vec(x.ret, L, Rl)
                if st == 'differs':
                    badrb = ('violation', key + ':readback', '%s: reports payload length %s for a message built from %d payload octets'
                             % (FC.fnloc(ctx, b['payload_len']), x.ret if isinstance(x.ret, int) else B.fmt_vec(x.ret, Rl), L))
                    break
                if st == 'unknown':
                    badrb = ('undecided', key, '%s after build: result undetermined' % b['payload_len'])
                    break
            if badrb:
                out.append(badrb)
            else:
                n_ok += 1
    # split sequence: copy, flags, finalise
    if b['set_payload'] and variant == 0:
        x_eff, x_id, x_fdf = fld(f, 'eff'), fld(f, 'can_identifier'), fld(f, 'fdf')
        idb = bpa.sym_arg('id', 32)

        def split(m, _):
            m.call(b['set_payload'], [Ptr(FC.PDU, 0), Ptr(PL, 0), L])
            pe = FC.param_width(mod, ctx.fn(x_eff['setter']), 1)
            m.call(x_eff['setter'], [Ptr(FC.PDU, 0), B.norm((B.make_any(idb[11:]),) + (0,) * (pe - 1))])
            m.call(x_id['setter'], [Ptr(FC.PDU, 0), idb])
            m.call(x_fdf['setter'], [Ptr(FC.PDU, 0), variant])
            m.call(b['finalize'], [Ptr(FC.PDU, 0), L])
            return None
        ws3 = bpa.analyse(mod, split, lambda: ([], regs()), max_worlds=64, max_steps=800000, gcache=ctx.gcache)
        oks3, err3 = FC.ok_worlds(ws3, cap=64)
        if err3:
            out.append(('undecided', key, 'split build sequence: %s' % err3))
        else:
            bad3 = None
            for x in oks3:
                with FC.with_world(x.decisions):
                    st, text = compare_image(x.regions[FC.PDU], exp, total)
                if st != 'ok' or x.oob:
                    bad3 = ('violation' if st != 'undecided' else st, key + ':split',
                            '%s: copy + field writes + %s for payload length %d do not give the one-call result: %s'
                            % (FC.fnloc(ctx, b['finalize']), b['finalize'], L, text or FC.fmt_oob(x.oob[0])))
                    break
            if bad3:
                out.append(bad3)
            else:
                n_ok += 1
    # finalise alone
    if variant == 0:
        expf, totalf, padf = expected_message(f, H, L, 0, with_id=False)
        ws4 = bpa.analyse(mod, b['finalize'], lambda: ([Ptr(FC.PDU, 0), L], regs()), max_worlds=16, gcache=ctx.gcache)
        oks4, err4 = FC.ok_worlds(ws4)
        if err4:
            out.append(('undecided', key, '%s alone: %s' % (b['finalize'], err4)))
        else:
            bad4 = None
            for x in oks4:
                with FC.with_world(x.decisions):
                    st, text = compare_image(x.regions[FC.PDU], expf, totalf)
                if st != 'ok' or x.oob:
                    bad4 = ('violation' if st != 'undecided' else st, key + ':finalize',
                            '%s: payload length %d: %s' % (FC.fnloc(ctx, b['finalize']), L, text or FC.fmt_oob(x.oob[0])))
                elif b['returns_len'] and x.ret != totalf:
                    bad4 = ('violation', key + ':finalize-ret', '%s: payload length %d: returns %r, expected %d'
                            % (FC.fnloc(ctx, b['finalize']), L, x.ret, totalf))
                if bad4:
                    break
            if bad4:
                out.append(bad4)
            else:
                n_ok += 1
    return out, n_ok


def lengths(tier, H):
    if tier == 'thorough':
        # every length the 9-bit quadlet count can express
        return list(range(0, 511 * 4 - H + 1))
    return list(range(0, 65))


def run(ctx, tier, res, tag=''):
    global CTX
    CTX = ctx
    ctx.facts()
    ts = []
    for fmt in BUILDERS:
        H = ctx.formats[fmt]['header_len']
        for L in lengths(tier, H):
            for v in (0, 1):
                ts.append((fmt, L, v))
    outs = pmap(_one, ts)
    info_long = 0
    for t, (issues, n_ok) in zip(ts, outs):
        res.count('builder instances analysed (format x length x variant)' + tag)
        res.ok(n_ok)
        for (st, key, text) in issues:
            if t[1] > 64 and key.endswith(':readback'):
                info_long += 1
                continue
            if st == 'violation':
                res.violation(key + tag, text)
            else:
                res.undec(text)
        if t in (('Can', 5, 1), ('CanBrief', 64, 0), ('Can', 0, 0)):
            f = ctx.formats[t[0]]
            pad = (4 - t[1] % 4) % 4
            res.sample({'builder': BUILDERS[t[0]]['build'], 'payload_octets': t[1], 'variant': 'FD' if t[2] else 'classic',
                        'message_octets': f['header_len'] + t[1] + pad, 'pad': pad,
                        'verdict': 'payload verbatim after header, pad zeroed, length/pad/id/eff/fdf set, every other bit keeps '
                                   'its entry value, nothing written beyond the padded message'}, limit=6)
    res.extra['lengths' + tag] = '0..64' if tier != 'thorough' else '0..max expressible by the 9-bit length field'
    res.extra['exhaustive'] = True
    from .. import promises
    promises.report(ctx, res, [v for b in BUILDERS.values() for v in b.values() if isinstance(v, str)], promises.MEMORY_KINDS, tag)
    res.rule = ('per (builder, payload length, variant): the final memory image over symbolic header, identifier, payload and trailing '
                'memory must equal the reference ACF-CAN message computed from spec/formats.json; region is exact-extent so any access '
                'beyond the padded message is reported; read-back, split sequence and finalise-alone are analysed as scripts')
    return res


def main(tier, seed):
    from ..ctx import run_all_configs
    res = Result('C06', tier, 'proof', seed)
    return run_all_configs(run, tier, res)
