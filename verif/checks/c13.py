"""C13 - byte-order helpers convert correctly for every value (both
preprocessor branches, by compiling for a little- and a big-endian target)."""
import os

from .. import bits as B
from .. import bpa, build, irparse
from ..report import Result, Broken
from .. import fieldchecks as FC

SIZES = (16, 32, 64)
KINDS = ('CpuToLe', 'CpuToBe', 'LeToCpu', 'BeToCpu')


# the C library's own byte-order vocabulary in scope first (every example program includes these before the AVTP
# headers): the helpers must be the same functions whatever the translation unit already defines
LIBC_PRELUDE = ['#include <stdlib.h>', '#include <string.h>', '#include <endian.h>', '#include <byteswap.h>',
                '#include <arpa/inet.h>', '#include <netinet/in.h>']


def harness_source(prelude=()):
    lines = list(prelude) + ['#include "avtp/Byteorder.h"']
    for n in SIZES:
        t = 'uint%d_t' % n
        lines.append('%s h_Bswap%d(%s x) { return Avtp_Bswap%d(x); }' % (t, n, t, n))
        for k in KINDS:
            lines.append('%s h_%s%d(%s x) { return Avtp_%s%d(x); }' % (t, k, n, t, k, n))
    return '\n'.join(lines) + '\n'


def load(target, d, prelude=(), name='', std=None, opt='-O0', extra=()):
    src = os.path.join(d, 'byteorder_harness%s.c' % name)
    with open(src, 'w') as f:
        f.write(harness_source(prelude))
    try:
        _, pstd = build.library_units()
        bcs = build.compile_units([src], os.path.join(d, 'bo_' + target + name), target=target, std=std or pstd, opt=opt, extra=extra)
    except build.BuildError as e:
        raise Broken('byte-order helper unit does not compile (a helper named in DESIGN.md 4.13 is missing?): %s' % e)
    ll = os.path.join(d, 'bo_%s%s.ll' % (target, name))
    build.link_ll(bcs, ll)
    return irparse.parse_module(open(ll).read(), ll)


def arg(n):
    return bpa.sym_arg('x', n)


class Multi(object):
    """results of one helper in several worlds (e.g. both answers of __builtin_constant_p): every world must satisfy
    what is asked of the helper"""
    def __init__(self, rets):
        self.rets = rets


def call(mod, fn, a):
    if isinstance(a, Multi):
        outs = []
        for x in a.rets:
            r, err = call(mod, fn, x)
            if r is None:
                return None, err
            outs.extend(r.rets if isinstance(r, Multi) else [r])
        return (outs[0] if len(outs) == 1 else Multi(outs)), None
    ws = bpa.analyse(mod, fn, lambda: ([a], {}), max_worlds=16)
    ws = [w for w in ws if w.status != 'infeasible' and not B.PathCond(w.decisions).infeasible]
    if not ws or len(ws) >= 16 or any(w.status != 'ok' for w in ws):
        return None, '; '.join(str(w.reason) for w in ws)
    if len(ws) == 1:
        return ws[0].ret, None
    return Multi([w.ret for w in ws]), None


def each(r):
    return r.rets if isinstance(r, Multi) else [r]


def image(v, n, big):
    """memory image (address order) of an n-bit host value"""
    bs = B.to_bits(v, n)
    nb = n // 8
    out = []
    for k in range(nb):
        j = (nb - 1 - k) if big else k
        out.append(tuple(bs[8 * j:8 * j + 8]))
    return out


def argbyte(n, j):
    """byte j (0 = least significant) of the argument"""
    return tuple(('A', 'x', 8 * j + b) for b in range(8))


def run(tier, res):
    d = build.scratch()
    mods = {'le': load('le', d), 'be': load('be', d),
            'le, after <endian.h>, <byteswap.h>, <arpa/inet.h>': load('le', d, LIBC_PRELUDE, '_libc'),
            'le, -std=gnu17, after the C library headers': load('le', d, LIBC_PRELUDE, '_gnu17', std='gnu17'),
            'le, -std=c99 (no GNU extensions)': load('le', d, (), '_c99', std='c99'),
            'le, i386, front end in -Os mode, __GNUC__ = 12': load('le32', d, (), '_gcclike', opt='-Os',
                                                                   extra=('-fgnuc-version=12.2.0', '-funsigned-char', '-U__clang__')),
            'be, mips as GCC presents itself (__GNUC__ = 12, no __BIG_ENDIAN__)': load('be32', d, (), '_gccbe',
                                                                                       extra=('-fgnuc-version=12.2.0', '-U__BIG_ENDIAN__'))}
    results = {}
    for tg, mod in mods.items():
        big = mod.big_endian
        if big != tg.startswith('be'):
            raise Broken('target %s did not produce the expected endianness' % tg)
        for n in SIZES:
            nb = n // 8
            where = 'include/avtp/Byteorder.h Avtp_Bswap%d [%s host]' % (n, tg)
            r, err = call(mod, 'h_Bswap%d' % n, arg(n))
            results[(tg, 'Bswap', n)] = r
            res.count('helper instances analysed')
            if r is None:
                res.undec('%s: %s' % (where, err))
            else:
                exp = []
                for k in range(nb):
                    exp.extend(argbyte(n, nb - 1 - k))
                verdict = 'eq'
                for r1 in each(r):
                    st, info = FC.compare_vec(r1, tuple(exp), n)
                    if st == 'differs':
                        verdict = 'differs'
                        res.violation('Bswap%d:%s:reverse' % (n, tg), '%s: result bit %d is %s, byte reversal requires %s; witness value: %s%s'
                                      % (where, info[0], B.fmt_term(B.to_bits(r1, n)[info[0]]), B.fmt_term(exp[info[0]]), FC.fmt_env(info[1]),
                                         ' (one of %d outcomes of __builtin_constant_p)' % len(each(r)) if isinstance(r, Multi) else ''))
                        break
                    if st != 'eq':
                        verdict = 'unknown'
                        res.undec('%s: bit %d undetermined' % (where, info))
                        break
                if verdict == 'eq':
                    res.ok()
                # involution
                r2, err = call(mod, 'h_Bswap%d' % n, r)
                if r2 is None:
                    res.undec('%s (twice): %s' % (where, err))
                elif all(FC.compare_vec(x, arg(n), n)[0] == 'eq' for x in each(r2)):
                    res.ok()
                else:
                    res.violation('Bswap%d:%s:involution' % (n, tg), '%s: applying the swap twice does not give the value back' % where)
            for k in KINDS:
                fn = 'h_%s%d' % (k, n)
                where = 'include/avtp/Byteorder.h Avtp_%s%d [%s host]' % (k, n, tg)
                r, err = call(mod, fn, arg(n))
                results[(tg, k, n)] = r
                res.count('helper instances analysed')
                if r is None:
                    res.undec('%s: %s' % (where, err))
                    continue
                if k.startswith('CpuTo'):
                    want_be = k == 'CpuToBe'
                    bad = None
                    img = None
                    for r1 in each(r):
                        img = image(r1, n, big)
                        for a in range(nb):
                            e = argbyte(n, nb - 1 - a if want_be else a)
                            st, info = FC.compare_vec(img[a], e, 8)
                            if st != 'eq':
                                bad = (a, st, info, e, img)
                                break
                        if bad:
                            break
                    if bad is None:
                        res.ok()
                        if n == 32:
                            res.sample({'helper': 'Avtp_%s%d' % (k, n), 'host': tg, 'memory_image_address_order':
                                        [B.fmt_vec(x, 8) for x in img]})
                    elif bad[1] == 'differs':
                        res.violation('%s%d:%s:image' % (k, n, tg),
                                      '%s: octet %d of the stored result is %s, the %s-endian image requires %s; witness value: %s'
                                      % (where, bad[0], B.fmt_vec(bad[4][bad[0]], 8), 'big' if want_be else 'little',
                                         B.fmt_vec(bad[3], 8), FC.fmt_env(bad[2][1])))
                    else:
                        res.undec('%s: octet %d undetermined' % (where, bad[0]))
                else:
                    # XToCpu(CpuToX(x)) == x
                    fwd = results.get((tg, 'CpuTo' + k[:2], n))
                    if fwd is None:
                        res.undec('%s: forward helper undecided' % where)
                        continue
                    r2, err = call(mod, fn, fwd)
                    if r2 is None:
                        res.undec('%s (after forward): %s' % (where, err))
                    elif all(FC.compare_vec(x, arg(n), n)[0] == 'eq' for x in each(r2)):
                        res.ok()
                    else:
                        bad2 = [x for x in each(r2) if FC.compare_vec(x, arg(n), n)[0] != 'eq'][0]
                        res.violation('%s%d:%s:inverse' % (k, n, tg),
                                      '%s: does not invert Avtp_CpuTo%s%d: result %s' % (where, k[:2], n, B.fmt_vec(bad2, n)))
    # mirror images between the two preprocessor branches
    for n in SIZES:
        pairs = [('CpuToLe', 'CpuToBe'), ('CpuToBe', 'CpuToLe'), ('LeToCpu', 'BeToCpu'), ('BeToCpu', 'LeToCpu')]
        for a, b in pairs:
            ra, rb = results.get(('le', a, n)), results.get(('be', b, n))
            res.count('mirror pairs compared')
            if ra is None or rb is None:
                res.undec('mirror %s%d@le vs %s%d@be: undecided operand' % (a, n, b, n))
            elif all(FC.compare_vec(x, B.to_bits(y, n), n)[0] == 'eq' for x in each(ra) for y in each(rb)):
                res.ok()
            else:
                res.violation('mirror:%s%d' % (a, n), 'include/avtp/Byteorder.h: Avtp_%s%d on a little-endian host and Avtp_%s%d on a '
                              'big-endian host are not the same function of the value' % (a, n, b, n))
    build.cleanup()
    res.rule = ('15 helpers x {little, big}-endian target, little-endian target again with the C library byte-order headers included first}: closed form of the result over a symbolic value; swap = byte reversal and '
                'involution; memory image of CpuToBe/CpuToLe through the target datalayout; to-host inverts from-host; the two '
                'preprocessor branches are mirror images')
    res.extra['exhaustive'] = True
    return res


def main(tier, seed):
    res = Result('C13', tier, 'proof', seed)
    return run(tier, res)
