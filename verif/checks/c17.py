"""C17 - overlapping header views agree (measured results, pairwise)."""
from .. import bits as B
from .. import bpa
from .. import fieldchecks as FC
from ..bpa import Ptr, Region
from ..ctx import load_spec
from ..par import pmap
from ..report import Result, Broken

CTX = None
N = 40   # octets of the shared symbolic buffer every view is laid over


def _measure(t):
    ctx = CTX
    fmt, fname = t
    f = ctx.formats[fmt]
    fld = [x for x in f['fields'] if x['name'] == fname]
    if not fld:
        raise Broken('spec/families.json names %s.%s which spec/formats.json does not have' % (fmt, fname))
    fld = fld[0]
    mod = ctx.mod
    out = {'fmt': fmt, 'field': fname}
    gfn = ctx.fn(f['get_field'])
    W = FC.param_width(mod, gfn, 1)
    ev = ctx.enum_value(fld['enum']) & B.mask(W)
    ws = bpa.analyse(mod, f['get_field'], lambda: ([Ptr(FC.PDU, 0), ev], {FC.PDU: Region(FC.PDU, 'sym', N)}),
                     max_worlds=16, gcache=ctx.gcache)
    oks, err = FC.ok_worlds(ws)
    out['get'] = [(list(w.decisions), w.ret) for w in oks] if not err else None
    out['get_err'] = err
    sfn = ctx.fn(f['set_field'])
    P = FC.param_width(mod, sfn, 2)
    ws = bpa.analyse(mod, f['set_field'], lambda: ([Ptr(FC.PDU, 0), ev, bpa.sym_arg('v', P)], {FC.PDU: Region(FC.PDU, 'sym', N)}),
                     max_worlds=16, gcache=ctx.gcache)
    oks, err = FC.ok_worlds(ws)
    if not err:
        out['set'] = []
        for w in oks:
            r = w.regions[FC.PDU]
            out['set'].append((list(w.decisions), {o: r.mem[o] for o in r.writes}))
    else:
        out['set'] = None
        out['get_err'] = out['get_err'] or err
    # dedicated accessors, where present
    out['dget'] = None
    if fld['getter']:
        ws = bpa.analyse(mod, fld['getter'], lambda: ([Ptr(FC.PDU, 0)], {FC.PDU: Region(FC.PDU, 'sym', N)}), max_worlds=16, gcache=ctx.gcache)
        oks, err = FC.ok_worlds(ws)
        if not err:
            R = FC.ret_width(mod, ctx.fn(fld['getter']))
            out['dget'] = [(list(w.decisions), B.norm(tuple(B.to_bits(w.ret, R)) + (0,) * (64 - R))) for w in oks]
    out['dset'] = None
    if fld.get('setter'):
        dfn = ctx.fn(fld['setter'])
        DP = FC.param_width(mod, dfn, 1)
        ws = bpa.analyse(mod, fld['setter'], lambda: ([Ptr(FC.PDU, 0), bpa.sym_arg('v', DP)], {FC.PDU: Region(FC.PDU, 'sym', N)}),
                         max_worlds=16, gcache=ctx.gcache)
        oks, err = FC.ok_worlds(ws)
        if not err:
            out['dset'] = []
            out['dset_width'] = DP
            for w in oks:
                r = w.regions[FC.PDU]
                out['dset'].append((list(w.decisions), {o: r.mem[o] for o in r.writes}))
    return out


def pairs(la, lb):
    for (da, xa) in la:
        for (db, xb) in lb:
            dec = da + db
            if B.PathCond(dec).infeasible:
                continue
            yield xa, xb, dec


def vec_differs(la, lb):
    """-> description of a difference between two multi-world results, or None"""
    for xa, xb, dec in pairs(la, lb):
        with FC.with_world(dec):
            st, info = FC.compare_vec(xa, B.to_bits(xb, 64), 64)
        if st != 'eq':
            return '%s vs %s' % (B.fmt_vec(xa, 64).replace('0 ', ''), B.fmt_vec(xb, 64).replace('0 ', ''))
    return None


def mem_differs(la, lb):
    for ma, mb, dec in pairs(la, lb):
        with FC.with_world(dec):
            for o in sorted(set(ma) | set(mb)):
                a = B.to_bits(ma[o], 8) if o in ma else tuple(('I', FC.PDU, o, b) for b in range(8))
                b = B.to_bits(mb[o], 8) if o in mb else tuple(('I', FC.PDU, o, b) for b in range(8))
                st, info = FC.compare_vec(a, b, 8)
                if st != 'eq':
                    return 'octet %d: %s vs %s' % (o, B.fmt_vec(a, 8), B.fmt_vec(b, 8))
    return None


def same_mem(a, b):
    if set(a) != set(b):
        return False
    return all(B.to_bits(a[o], 8) == B.to_bits(b[o], 8) for o in a)


def run(ctx, tier, res, tag=''):
    global CTX
    CTX = ctx
    ctx.facts()
    fam = load_spec('families.json')
    need = []
    for fa in fam['families']:
        for fl in fa['fields']:
            for v in fa['views']:
                t = (v, fl.get(v, fl['default']))
                if t not in need:
                    need.append(t)
    ms = dict(zip(need, pmap(_measure, need)))
    for fa in fam['families']:
        for fl in fa['fields']:
            views = [(v, fl.get(v, fl['default'])) for v in fa['views']]
            for i in range(len(views)):
                for j in range(i + 1, len(views)):
                    a, b = ms[views[i]], ms[views[j]]
                    res.count('view pairs compared')
                    key = '%s:%s:%s.%s~%s.%s' % (fa['name'], fl['default'], a['fmt'], a['field'], b['fmt'], b['field'])
                    desc = 'field %s seen as %s.%s and as %s.%s' % (fl['default'], a['fmt'], a['field'], b['fmt'], b['field'])
                    if a['get'] is None or b['get'] is None or a['set'] is None or b['set'] is None:
                        res.undec('%s: a view could not be analysed: %s %s' % (desc, a.get('get_err'), b.get('get_err')))
                        continue
                    bad = []
                    d = vec_differs(a['get'], b['get'])
                    if d:
                        bad.append('%s and %s return different bits (%s)'
                                   % (ctx.formats[a['fmt']]['get_field'], ctx.formats[b['fmt']]['get_field'], d))
                    d = mem_differs(a['set'], b['set'])
                    if d:
                        bad.append('%s and %s leave different bytes (%s)'
                                   % (ctx.formats[a['fmt']]['set_field'], ctx.formats[b['fmt']]['set_field'], d))
                    if a['dget'] is not None and b['dget'] is not None and vec_differs(a['dget'], b['dget']):
                        bad.append('the dedicated getters disagree')
                    if a['dset'] is not None and b['dset'] is not None and a.get('dset_width') == b.get('dset_width'):
                        d = mem_differs(a['dset'], b['dset'])
                        if d:
                            bad.append('the dedicated setters leave different bytes (%s)' % d)
                    if bad:
                        res.violation(key + tag, 'src/avtp (%s vs %s tables): %s: %s' % (a['fmt'], b['fmt'], desc, '; '.join(bad)))
                    else:
                        res.ok()
                        if len(res.samples) < 6 and i == 0 and j == 1:
                            res.sample({'family': fa['name'], 'field': fl['default'], 'views': [a['fmt'], b['fmt']],
                                        'read_result': B.fmt_vec(a['get'][0][1], 64).replace('0 ', ''),
                                        'octets_written': sorted(a['set'][0][1])})
    from .. import promises
    promises.report(ctx, res, FC.accessor_functions(ctx, 'all'), promises.MEMORY_KINDS, tag)
    res.rule = ('for every family of spec/families.json, every shared field and every pair of views: the measured closed form of '
                'the by-identifier read, the measured effect of the by-identifier write, the dedicated getters and the dedicated setters (same parameter width) must be identical')
    res.extra['exhaustive'] = True
    return res


def main(tier, seed):
    from ..ctx import run_all_configs
    res = Result('C17', tier, 'proof', seed)
    return run_all_configs(run, tier, res)
