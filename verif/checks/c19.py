"""C19 - the example CAN tunnel is transparent.

The talker's real main() (sending loop: init_cf_pdu, prepare_acf_packet,
update_cf_length and the length bookkeeping) and the listener's receive path
(new_packet) are interpreted by the bit-provenance engine over the IR of the
example programs linked with the library; argp_parse and the socket helpers
are replaced by models, read() delivers the input frames, the first sendto()
records the packet, recv/write connect the two halves.  CAN identifier,
flags and data stay symbolic; frame length, control format, encapsulation and
the number of frames per packet are enumerated.  The frame(s) the listener
writes are compared, bit for bit, with the frame(s) the talker was given.

Scope limits (stated in DESIGN.md 4.19): the listener's main()/poll loop and
option parsing are not analysed; socket I/O is modelled; input frames are
well-formed (a standard frame has no identifier bits above bit 10)."""
import os

from .. import bits as B
from .. import bpa, build, irparse
from .. import fieldchecks as FC
from ..bpa import Ptr, Region
from ..par import pmap
from ..report import Result, Broken

CAN_EFF_FLAG, CAN_RTR_FLAG = 1 << 31, 1 << 30
MOD = {}
PKT = 'pkt'


def load_program(target, workdir, defs=(), suffix='', text_only=False):
    t = build.cmake_targets()
    if target not in t:
        raise Broken('CMake target %s not found' % target)
    srcs = list(t[target]['sources'])
    for l in t[target]['links']:
        if l in t and t[l]['kind'] in ('static', 'shared'):
            srcs += t[l]['sources']
    incs = [os.path.join(build.REPO, i) for i in ('examples', 'include')]
    try:
        bcs = build.compile_units([os.path.join(build.REPO, s) for s in srcs], os.path.join(workdir, 'p_' + target + suffix),
                                  std=t['__std__'], includes=incs, defs=defs, debug=not text_only)
        ll = os.path.join(workdir, target + suffix + '.ll')
        build.link_ll(bcs, ll)
    except build.BuildError as e:
        raise Broken(str(e))
    if text_only:
        return [l for l in open(ll) if l.strip() and not l.startswith((';', '!', 'source_filename'))]
    return irparse.parse_module(open(ll).read(), ll)


def ndebug_differs(workdir):
    """CMake's Release, RelWithDebInfo and MinSizeRel configurations compile the examples with -DNDEBUG: is the code of
    either program (its own units and the library units linked into it) different then?  Compared as metadata-free IR."""
    out = []
    for target in ('acf-can-talker', 'acf-can-listener'):
        a = load_program(target, workdir, suffix='_cmpdef', text_only=True)
        b = load_program(target, workdir, defs=('NDEBUG',), suffix='_cmpnd', text_only=True)
        if a != b:
            out.append(target)
    return out


def gregion(mod, name, value):
    g = mod.globals.get(name)
    if g is None:
        raise Broken('global %s not found in %s' % (name, mod.source))
    n = mod.sizeof(g.ty)
    mem = {}
    bs = value.to_bytes(n, 'big' if mod.big_endian else 'little')
    for i in range(n):
        mem[i] = bs[i]
    return Region('@' + name, 'global', n, mem, writable=True)


def ext_models(dgram=None, writes=None, concrete_clock=False, max_writes=None):
    def clock_gettime(m, args, ins):
        p = args[1]
        r = m.region_of(p, 'clock_gettime')
        fixed = (1700000000).to_bytes(8, 'big' if m.mod.big_endian else 'little') + \
            (123456789).to_bytes(8, 'big' if m.mod.big_endian else 'little')
        for i in range(16):
            r.mem[p.off + i] = tuple(('A', 'now', 8 * i + b) for b in range(8)) if not concrete_clock else fixed[i]
        return 0

    def noop(m, args, ins):
        return 0

    def recv(m, args, ins):
        buf, n = args[1], args[2]
        if not isinstance(n, int):
            m.undecided('recv with a non-constant length')
        k = min(n, dgram.size)
        m.memcpy(buf, Ptr(dgram.name, 0), k)
        return k

    def write(m, args, ins):
        buf, n = args[1], args[2]
        if not isinstance(n, int):
            m.undecided('write with a non-constant length')
        r = m.region_of(buf, 'write')
        writes.append([r.get(buf.off + i) for i in range(n)])
        m.w.events.append(('write', n))
        if max_writes is not None and len(writes) > max_writes:
            # more frames than the packet carried: the verdict (frame count) is settled, do not follow a listener that
            # may be walking the packet in circles
            raise bpa.Halt()
        return n
    m = {'clock_gettime': clock_gettime, 'recv': recv, 'write': write}
    # C library calls without an effect on the tunnel: diagnostics, signal set-up, exit hooks
    for name in ('fprintf', 'perror', 'printf', 'puts', 'fputs', 'putchar', 'fflush', 'sigemptyset', 'sigfillset', 'sigaddset',
                 'sigaction', 'signal', 'atexit', 'setvbuf', 'strerror', 'syslog', 'openlog'):
        m[name] = noop
    return m


def frame_region(mod, k, cls, L, fd, concrete_flags=False, concrete_id=False):
    """well-formed input frame k: symbolic identifier / flags / data, concrete length.  With concrete_flags the
    RTR and FD flag bits are fixed, frame-dependent constants (bulk packets: keeps the listener on one path)"""
    r = Region('frame%d' % k, 'sym', 72)
    nid = 11 if cls == 'std' else 29
    idbits = [('A', 'id%d' % k, i) for i in range(nid)] + [0] * (29 - nid)
    if concrete_id:
        cv = (0x155 + 0x2b * k) & 0x7ff if cls == 'std' else (0x1234567 + 0x10203 * k) & 0x1fffffff
        idbits = [(cv >> i) & 1 for i in range(29)]
    rtr = ('A', 'rtr%d' % k, 0) if not concrete_flags else (k % 3 == 1) * 1
    can_id = idbits + [0, rtr, 1 if cls == 'ext' else 0]
    for i in range(4):
        chunk = B.norm(can_id[8 * i:8 * i + 8])
        r.mem[(3 - i) if mod.big_endian else i] = chunk
    r.mem[4] = L
    flags = None
    if fd:
        if concrete_flags:
            flags = [(k >> 0) & 1, (k >> 1) & 1, 1 - ((k >> 2) & 1), 0, 0, 0, 0, 0]
        else:
            flags = [('A', 'brs%d' % k, 0), ('A', 'esi%d' % k, 0), ('A', 'fdf%d' % k, 0), 0, 0, 0, 0, 0]
        r.mem[5] = B.norm(flags)
    return r, can_id, flags


def talker(tm, use_tscf, use_udp, fd, frames):
    """Input generality ladder: level 0 = identifiers, RTR and FD flags and the timestamp symbolic (bulk packets:
    flags concrete); if the talker's control turns out to depend on those data (more worlds than the cap), level 1
    fixes flags and timestamp, level 2 also the identifiers - data octets stay symbolic throughout.  The level used
    is reported with the scenario."""
    err = None
    for level, cap in ((0, 16), (1, 32), (2, 32)):
        outs, err = talker_at(tm, use_tscf, use_udp, fd, frames, level, cap)
        if outs is not None:
            for o in outs:
                o['level'] = level
            return outs, None
        if 'more than' not in err:
            break
    return None, err


def talker_at(tm, use_tscf, use_udp, fd, frames, level, cap):
    """The talker's real main() is interpreted for one packet: argument parsing and socket helpers are replaced by
    models, read() on the CAN socket delivers the input frames, the first sendto() records the packet and ends the
    run.  -> (dict(img, len, acf, cf, ids), None) or (None, error)"""
    regs = {'@use_tscf': gregion(tm, 'use_tscf', 1 if use_tscf else 0),
            '@use_udp': gregion(tm, 'use_udp', 1 if use_udp else 0),
            '@can_variant': gregion(tm, 'can_variant', 1 if fd else 0),
            '@num_acf_msgs': gregion(tm, 'num_acf_msgs', len(frames)),
            '@seq_num': gregion(tm, 'seq_num', 7),
            '@udp_seq_num': gregion(tm, 'udp_seq_num', 0x01020304)}
    ids = []
    flg = []
    bulk = len(frames) > 3
    for k, (cls, L) in enumerate(frames):
        r, cid, fl = frame_region(tm, k, cls, L, fd, concrete_flags=bulk or level >= 1, concrete_id=level >= 2)
        regs[r.name] = r
        ids.append(cid)
        flg.append(fl)
    out = {}
    state = {'k': 0}

    def const(v):
        return lambda m, args, ins: v

    def read(m, args, ins):
        buf, n = args[1], args[2]
        if not isinstance(n, int) or state['k'] >= len(frames):
            m.undecided('unexpected read() on the CAN socket')
        m.memcpy(buf, Ptr('frame%d' % state['k'], 0), n)
        state['k'] += 1
        return n

    def sendto(m, args, ins):
        buf, n = args[1], args[2]
        if not isinstance(n, int):
            m.undecided('sendto with a symbolic length')
        r = m.region_of(buf, 'sendto')
        m.w.sent = {'img': [r.get(buf.off + i) for i in range(n)], 'len': n}
        raise bpa.Halt()
    ext = ext_models(concrete_clock=level >= 1)
    ext.update({'read': read, 'sendto': sendto, 'close': const(0), 'argp_parse': const(0)})
    over = {'create_talker_socket_udp': const(5), 'create_talker_socket': const(5), 'setup_udp_socket_address': const(0),
            'setup_socket_address': const(0), 'setup_can_socket': const(6)}
    for fn in list(over) + ['main']:
        if fn not in tm.functions:
            return None, 'talker function %s not found' % fn
    mfn = tm.functions['main']

    # the talker is followed from program start: every other global has the value of its initialiser (option flags that
    # argp_parse - modelled away - would set, counters, a `stop_requested` flag only a signal handler sets)
    for k, v in bpa.initial_global_regions(tm, skip=set(regs)).items():
        regs[k] = v

    def mk():
        state['k'] = 0
        return [1, bpa.NULL][:len(mfn.params)], dict((k, Region(v.name, v.kind, v.size, dict(v.mem), v.writable)) for k, v in regs.items())
    ws = bpa.analyse(tm, 'main', mk, max_worlds=cap, max_steps=800000, externals=ext, overrides=over,
                     alloca_kind='sym')
    ws = [w for w in ws if w.status != 'infeasible' and not B.PathCond(w.decisions).infeasible]
    # one packet per feasible world of the talker (data-dependent control in the library forks it)
    if len(ws) >= cap:
        return None, 'talker side: control depends on data, more than %d worlds' % cap
    if not ws or any(w.status != 'ok' or not hasattr(w, 'sent') for w in ws):
        return None, 'talker side: %s' % sorted(set((w.reason or 'main() returned without sending') for w in ws
                                                    if w.status != 'ok' or not hasattr(w, 'sent')))
    cf = 4 if use_udp else 0
    hdr = 24 if use_tscf else 12
    outs = []
    for w in ws:
        o = dict(w.sent)
        o['cf'] = cf
        o['acf'] = o['len'] - cf - hdr
        o['ids'] = ids
        o['flags'] = flg
        o['decisions'] = list(w.decisions)
        outs.append(o)
    return outs, None


def announced(img, cf, use_tscf):
    """value of stream_data_length (TSCF: header bits 160..175) / ntscf_data_length (bits 13..23) in the image"""
    if use_tscf:
        b = img[cf + 20:cf + 22]
        if all(isinstance(x, int) for x in b):
            return b[0] << 8 | b[1]
        return None
    b = img[cf + 1:cf + 3]
    if all(isinstance(x, int) for x in b):
        return ((b[0] << 8) | b[1]) & 0x7ff
    return None


def listener(lm, use_udp, fd, img, nframes=None):
    dg = Region('dgram', 'sym', len(img))
    for i, x in enumerate(img):
        dg.mem[i] = x
    worlds = []
    # writes are per execution: collect through a fresh list per world
    holder = {}

    def mk():
        holder['w'] = []
        regs = {'dgram': Region('dgram', 'sym', len(img), dict(dg.mem)),
                '@use_udp': gregion(lm, 'use_udp', 1 if use_udp else 0),
                '@can_variant': gregion(lm, 'can_variant', 1 if fd else 0)}
        return [3, 4], regs
    # analyse() re-executes per world; wrap to capture the writes of each execution
    results = []

    def script(m, args):
        m.externals = ext_models(m.w.regions['dgram'], holder['w'], max_writes=(nframes + 1) if nframes is not None else None)
        try:
            r = m.call('new_packet', args)
        except bpa.Halt:
            results.append((list(holder['w']), None))
            raise
        results.append((list(holder['w']), r))
        return r
    # bulk packets carry concrete flags: a correct listener stays on one path; one that starts to interpret payload
    # octets as headers forks without end - cap it early
    cap = 4096 if (nframes is None or nframes <= 3) else 16
    ws = bpa.analyse(lm, script, mk, max_worlds=cap, max_steps=600000)
    out = []
    k = 0
    for w in ws:
        if w.status == 'ok':
            wr, r = results[k]
            k += 1
            out.append((w, wr))
        else:
            out.append((w, None))
    return out


def expect_can_id(cid):
    return tuple(cid[:29]) + (0, cid[30], cid[31])


def judge(t):
    use_tscf, use_udp, fd, frames = t
    tm, lm = MOD['talker'], MOD['listener']
    tks, err = talker(tm, use_tscf, use_udp, fd, frames)
    tag = '%s/%s/%s' % ('TSCF' if use_tscf else 'NTSCF', 'UDP' if use_udp else 'raw', 'FD' if fd else 'classic')
    fl = ['%s len %d' % f for f in frames]
    if len(fl) > 6:
        fl = fl[:3] + ['... %d frames in all, %d ACF octets' % (len(frames), sum(((16 + f[1] + 3) // 4) * 4 for f in frames))]
    desc = '%s, frames %s' % (tag, fl)
    if tks is None:
        return [('undecided', 'talker', desc + ': ' + err)], 1, 0, None
    if tks[0]['level']:
        desc += ' [talker control depends on frame data: %s fixed to constants]' % \
            ('flags and timestamp' if tks[0]['level'] == 1 else 'flags, timestamp and identifiers')
    out = []
    sample = None
    for tk in tks:
        o1, s1 = judge_packet(t, tk, desc)
        for x in o1:
            if x not in out:
                out.append(x)
        sample = sample or s1
        if not use_udp and tk['len'] < 46:
            # raw Ethernet: a frame with less than 46 payload octets is zero-padded on the wire and the packet socket
            # delivers the padding, so the listener receives more octets than the talker sent
            tk2 = dict(tk)
            tk2['padded'] = True
            o2, _ = judge_packet(t, tk2, desc + ' [padded to the Ethernet minimum of 46 octets]')
            for x in o2:
                if x not in out:
                    out.append(x)
    aspects = ['announced-length', 'frame-count', 'identifier', 'rtr', 'eff', 'len', 'data'] + (['brs', 'esi', 'fdf'] if fd else [])
    failed = set()
    for st, key, text in out:
        for a in aspects:
            if (':' + a + ':') in (':' + key + ':') or key.startswith(a):
                failed.add(a)
    if sample is not None and len(tks) > 1:
        sample['talker_worlds'] = len(tks)
    if sample is not None:
        sample['input_generality_level'] = tks[0]['level']
    return out, len(aspects), len([a for a in aspects if a not in failed]), (sample if not out else None)


def judge_packet(t, tk, desc):
    """one packet (one world of the talker) through the listener; every comparison is made under the talker's and the
    listener's path conditions together"""
    use_tscf, use_udp, fd, frames = t
    lm = MOD['listener']
    tdec = tk['decisions']
    out = []
    ann = announced(tk['img'], tk['cf'], use_tscf)
    if ann != tk['acf']:
        out.append(('violation', 'announced-length', '%s: the control header announces %r octets of ACF messages, %d follow' % (desc, ann, tk['acf'])))
    img = tk['img']
    if tk.get('padded'):
        img = list(img) + [0] * (46 - len(img))
    res = listener(lm, use_udp, fd, img, len(frames))
    feas = []
    for w, wr in res:
        if w.status == 'infeasible' or B.PathCond(tdec + list(w.decisions)).infeasible:
            continue
        if w.status != 'ok':
            out.append(('undecided', 'listener', '%s: listener side: %s' % (desc, w.reason)))
            continue
        feas.append((w, wr))
    if len(res) >= (4096 if len(frames) <= 3 else 16):
        out.append(('undecided', 'listener', '%s: more than %d worlds' % (desc, 4096 if len(frames) <= 3 else 16)))
    cls0 = frames[0][0] if len(frames) == 1 else 'multi'
    checked = set()
    for w, wr in feas:
        with FC.with_world(tdec + list(w.decisions)):
            # is this world reachable at all for well-formed inputs?
            if len(wr) != len(frames):
                wit = FC.find_witness(0, 1)   # any assignment satisfying the path condition
                if wit is None and not FC.PC.trivial():
                    # cannot exhibit an input for this path: do not claim
                    out.append(('undecided', 'listener', '%s: a path writing %d frame(s) could be neither excluded nor reproduced' % (desc, len(wr))))
                    continue
                out.append(('violation', 'frame-count:%s:%d-of-%d' % (cls0, len(wr), len(frames)),
                            '%s: the listener writes %d frame(s) for %d carried (input: %s)' % (desc, len(wr), len(frames), FC.fmt_env(wit or {}))))
                continue
            for k, (cls, L) in enumerate(frames):
                fr = wr[k]
                size = 72 if fd else 16
                if len(fr) != size:
                    out.append(('violation', 'frame-size', '%s: frame %d is written with %d octets' % (desc, k, len(fr))))
                    continue
                idv = []
                order = range(4) if not lm.big_endian else range(3, -1, -1)
                for i in order:
                    idv.extend(B.to_bits(fr[i], 8))
                exp = expect_can_id(tk['ids'][k])
                names = [('identifier', range(0, 29)), ('rtr', [30]), ('eff', [31]), ('id-bit29', [29])]
                for nm, rng in names:
                    for i in rng:
                        st, info = FC.compare_vec((idv[i],), (exp[i],), 1)
                        if st == 'differs':
                            out.append(('violation', '%s:%s:%s' % (cls0 if cls0 == 'multi' else cls, nm, short(idv[i])),
                                        '%s: frame %d: %s bit comes out as %s, it went in as %s; witness: %s'
                                        % (desc, k, nm, B.fmt_term(idv[i]), B.fmt_term(exp[i]), FC.fmt_env(info[1]))))
                            break
                        if st == 'unknown':
                            out.append(('undecided', 'listener', '%s: frame %d %s bit %d undetermined' % (desc, k, nm, i)))
                            break
                if fr[4] != L:
                    out.append(('violation', '%s:len' % (cls0 if cls0 == 'multi' else cls), '%s: frame %d: length comes out as %r, went in as %d' % (desc, k, fr[4], L)))
                if fd:
                    fl = B.to_bits(fr[5], 8)
                    for bit, nm in ((0, 'brs'), (1, 'esi'), (2, 'fdf')):
                        e = tk['flags'][k][bit]
                        st, info = FC.compare_vec((fl[bit],), (e,), 1)
                        if st == 'differs':
                            out.append(('violation', '%s:%s:%s' % (cls0 if cls0 == 'multi' else cls, nm, short(fl[bit])),
                                        '%s: frame %d: FD flag %s comes out as %s, it went in as %s; witness: %s'
                                        % (desc, k, nm.upper(), B.fmt_term(fl[bit]), B.fmt_term(e), FC.fmt_env(info[1]))))
                        elif st == 'unknown':
                            out.append(('undecided', 'listener', '%s: frame %d flag %s undetermined' % (desc, k, nm)))
                for i in range(L):
                    e = tuple(('I', 'frame%d' % k, 8 + i, b) for b in range(8))
                    st, info = FC.compare_vec(B.to_bits(fr[8 + i], 8) if not (isinstance(fr[8 + i], tuple) and fr[8 + i] and fr[8 + i][0] == 'P') else (B.TOP,) * 8, e, 8)
                    if st != 'eq':
                        out.append(('violation' if st == 'differs' else 'undecided', '%s:data' % (cls0 if cls0 == 'multi' else cls),
                                    '%s: frame %d: data octet %d comes out as %s' % (desc, k, i, B.fmt_vec(fr[8 + i], 8) if not isinstance(fr[8 + i], int) else hex(fr[8 + i]))))
                        break
    if not feas and not out:
        out.append(('undecided', 'listener', '%s: no feasible world' % desc))
    sample = None
    if feas and not out:
        w0, wr0 = feas[0]
        if wr0:
            order = range(4) if not lm.big_endian else range(3, -1, -1)
            idv = []
            for i in order:
                idv.extend(B.to_bits(wr0[0][i], 8))
            sample = {'scenario': desc, 'packet_octets_sent_by_talker_main': tk['len'], 'announced_acf_octets': ann,
                      'listener_worlds': len(feas), 'frames_written': len(wr0),
                      'frame0_can_id_out_msb_first': B.fmt_vec(tuple(idv), 32), 'frame0_len_out': wr0[0][4]}
    return out, sample


def short(t):
    if t == 0 or t == 1:
        return 'const%d' % t
    import re
    s = B.fmt_term(t).replace(' ', '')
    s = re.sub(r'([a-z]+)\d+\.', r'\1.', s)      # forget which frame of the packet
    return s if len(s) <= 40 else s[:37] + '...'


def scenarios(tier):
    out = []
    for use_tscf in (0, 1):
        for use_udp in (0, 1):
            for fd in (0, 1):
                maxl = 64 if fd else 8
                lens = list(range(0, maxl + 1)) if (tier == 'thorough' or (use_tscf == 0 and use_udp == 0)) else \
                    [0, 1, 3, 4, 8] + ([12, 15, 16, 17, 32, 63, 64] if fd else [])
                for L in lens:
                    for cls in ('std', 'ext'):
                        out.append((use_tscf, use_udp, fd, ((cls, L),)))
                # several frames in one packet
                out.append((use_tscf, use_udp, fd, (('std', 2), ('ext', 5))))
                # bulk packets (flags concrete, identifiers and data symbolic): more than 255 ACF octets, exactly 256,
                # and as many frames as a 1500-octet PDU holds
                if use_tscf == 1 or tier == 'thorough':
                    hdr = (24 if use_tscf else 12) + (4 if use_udp else 0)
                    if fd:
                        bulks = [[('ext' if k % 2 else 'std', 64) for k in range(5)], [('std', 48)] * 4,
                                 [('ext' if k % 3 else 'std', 64) for k in range((1500 - hdr) // 80)]]
                    else:
                        bulks = [[('ext' if k % 2 else 'std', 8) for k in range(12)], [('std', 0)] * 16,
                                 [('ext' if k % 3 else 'std', 8) for k in range((1500 - hdr) // 24)]]
                    for b_ in bulks:
                        out.append((use_tscf, use_udp, fd, tuple(b_)))
                else:
                    # NTSCF in the quick tier: the fullest packet only (more than 1023 announced octets: the 11-bit
                    # ntscf_data_length needs its top bit)
                    hdr = 12 + (4 if use_udp else 0)
                    out.append((use_tscf, use_udp, fd, tuple(('ext' if k % 3 else 'std', maxl)
                                                             for k in range((1500 - hdr) // (80 if fd else 24)))))
                if not fd and (tier == 'thorough' or (use_tscf == 1 and use_udp == 0)):
                    # three frames only for classic CAN: with FD flags the listener's path count (2^4 per frame) explodes
                    out.append((use_tscf, use_udp, fd, (('ext', 8), ('std', 0), ('std', 3))))
                if fd and tier == 'thorough':
                    out.append((use_tscf, use_udp, fd, (('ext', 64), ('std', 17))))
    return out


def compress(ls):
    ls = sorted(set(ls))
    out = []
    i = 0
    while i < len(ls):
        j = i
        while j + 1 < len(ls) and ls[j + 1] == ls[j] + 1:
            j += 1
        out.append('%d' % ls[i] if i == j else '%d-%d' % (ls[i], ls[j]))
        i = j + 1
    return ','.join(out)


def run(tier, res):
    d = build.scratch()
    run_config(tier, res, d, (), '')
    nd = ndebug_differs(d)
    if nd:
        res.assumptions.append('configurations analysed: default flags of CMakeLists.txt and -DNDEBUG (the code of %s differs under it)'
                               % ' and '.join(nd))
        run_config(tier, res, d, ('NDEBUG',), ' [-DNDEBUG build]')
    else:
        res.assumptions.append('configurations analysed: default flags of CMakeLists.txt; -DNDEBUG yields identical IR for both '
                               'programs, nothing further to decide')
    res.rule = __doc__
    res.explanation = __doc__
    res.assumptions += ['the listener main()/poll loop and option parsing are not analysed', 'input frames are well-formed',
                        'recv/write/clock_gettime/stdio are modelled']
    build.cleanup()
    return res


def run_config(tier, res, d, defs, tag):
    MOD['talker'] = load_program('acf-can-talker', d, defs=defs, suffix='_nd' if defs else '')
    MOD['listener'] = load_program('acf-can-listener', d, defs=defs, suffix='_nd' if defs else '')
    if 'main' not in MOD['talker'].functions:
        raise Broken('talker main() not found (anchor vanished)')
    if 'new_packet' not in MOD['listener'].functions:
        raise Broken('listener function new_packet not found (anchor vanished)')
    sc = scenarios(tier)
    outs = pmap(judge, sc)
    agg = {}
    for t, (issues, n_asp, n_ok, smp) in zip(sc, outs):
        if smp and (len(t[3]) > 1 or t[3][0][1] in (0, 8, 64)):
            res.sample(smp, limit=6)
        res.count('tunnel scenarios analysed (control format x encapsulation x variant x frames)' + tag)
        if smp and smp.get('input_generality_level'):
            res.count('scenarios decided with flags/timestamp/identifiers fixed (talker control depends on frame data)' + tag)
        res.count('aspects compared (announced length, frame count, identifier, flags, length, data)' + tag, n_asp)
        res.obligations += n_asp
        res.discharged += n_ok
        for st, key, text in issues:
            if st == 'undecided':
                res.undec(text + tag)
                continue
            variant = 'fd' if t[2] else 'classic'
            k = 'tunnel:%s:%s' % (variant, key)
            a = agg.setdefault(k, {'text': text, 'lens': [], 'n': 0, 'multi': False})
            a['n'] += 1
            if len(t[3]) == 1:
                a['lens'].append(t[3][0][1])
            else:
                a['multi'] = True
    for k in sorted(agg):
        a = agg[k]
        full = set(range(0, 65 if ':fd:' in k else 9))
        lens = set(a['lens'])
        suffix = ''
        if lens and not a['multi'] and tier == 'thorough' and lens != full:
            suffix = ':L' + compress(lens)
        elif lens and lens != full and not (lens >= {0, 1, 3, 4, 8}):
            suffix = ':L' + compress(lens)
        res.violations.append({'key': k + suffix + tag, 'detail': {}, 'text': '%s [%d scenario(s) fail this way%s]%s'
                               % (a['text'], a['n'], (', single-frame lengths ' + compress(lens)) if lens else '', tag)})


def main(tier, seed):
    res = Result('C19', tier, 'proof', seed)
    return run(tier, res)
