"""C09 - VSS finalisation pads to a quadlet and records length and pad."""
from .. import bits as B
from .. import bpa
from .. import fieldchecks as FC
from ..bpa import Ptr, Region
from ..par import pmap
from ..report import Result
from . import c06

CTX = None
FN = 'Avtp_Vss_Pad'


def _one(L):
    ctx = CTX
    f = ctx.formats['Vss']
    pad = (4 - L % 4) % 4
    total = L + pad
    exp = [[('I', FC.PDU, o, b) for b in range(8)] for o in range(total)]
    c06.put_const(exp, f, 'acf_msg_length', total // 4)
    c06.put_const(exp, f, 'pad', pad)
    for i in range(pad):
        exp[L + i] = [0] * 8
    ws = bpa.analyse(ctx.mod, FN, lambda: ([Ptr(FC.PDU, 0), L], {FC.PDU: Region(FC.PDU, 'sym', total)}),
                     max_worlds=16, max_steps=60000, gcache=ctx.gcache)
    where = FC.fnloc(ctx, FN)
    key = 'Vss:pad:L%d' % L
    oks, err = FC.ok_worlds(ws)
    if err:
        df = FC.definite_fault(ws)
        if df:
            return [('violation', key + ':fault', '%s (length %d): %s' % (where, L, df))], 0
        return [('undecided', key, '%s (length %d): %s' % (where, L, err))], 0
    out = []
    for w in oks:
        with FC.with_world(w.decisions):
            st, text = c06.compare_image(w.regions[FC.PDU], exp, total)
        if st != 'ok':
            out.append((st, key + ':image', '%s: message length %d: %s' % (where, L, text)))
        if w.oob:
            out.append(('violation', key + ':beyond', '%s: message length %d: %s - outside the %d octets of message plus padding'
                        % (where, L, FC.fmt_oob(w.oob[0]), total)))
        if out:
            break
    return out, (0 if out else 2)


def run(ctx, tier, res, tag=''):
    global CTX
    CTX = ctx
    ctx.facts()
    ctx.fn(FN)
    Ls = list(range(12, 2045))
    outs = pmap(_one, Ls)
    classes = {}
    for L, (issues, n_ok) in zip(Ls, outs):
        res.count('message lengths analysed' + tag)
        res.ok(n_ok)
        for (st, key, text) in issues:
            if st != 'violation':
                res.undec(text)
                continue
            # one finding per (kind, length residue) so that the report stays readable; each still counted
            cls = key.split(':')[3] + ':mod4=%d' % (L % 4)
            if cls in classes:
                classes[cls] += 1
                res.obligations += 1
                continue
            classes[cls] = 1
            res.violation('Vss:pad:%s%s' % (cls, tag), text)
    for cls, n in classes.items():
        if n > 1:
            res.notes.append('%s: %d message lengths fail the same way' % (cls, n))
    # accessor-width clause: the dedicated length accessors carry all 9 bits
    f = ctx.formats['Vss']
    x = c06.fld(f, 'acf_msg_length')
    g = FC.judge_getter(ctx, f, x, 'ded')
    s = FC.judge_setter(ctx, f, x, 'ded')
    for r in (g, s):
        res.count('length accessors analysed' + tag)
        bad = [i for i in r['issues'] if i[0] in ('C01', 'C02')]
        if not bad:
            res.ok()
        for (_, kind, key, text) in bad:
            if kind == 'violation':
                res.violation(key + tag, text)
            else:
                res.undec(text)
    res.sample({'function': FN, 'message_octets': 13, 'pad': 3, 'octets_zeroed': [13, 14, 15], 'acf_msg_length': 4,
                'verdict': 'every other bit of the 16-octet region keeps its entry value'})
    res.sample({'function': FN, 'message_octets': 2044, 'pad': 0, 'acf_msg_length': 511})
    res.extra['exhaustive'] = True
    from .. import promises
    promises.report(ctx, res, [FN], promises.MEMORY_KINDS, tag)
    res.rule = ('Avtp_Vss_Pad interpreted for every message length 12..2044 on an exact-extent symbolic region: final image = entry image '
                'with acf_msg_length = ceil(L/4), pad = (4 - L mod 4) mod 4 and exactly the pad octets after the message zeroed; plus the '
                'get/set lemmas for the dedicated VSS length accessors (all 9 bits)')
    return res


def main(tier, seed):
    from ..ctx import run_all_configs
    res = Result('C09', tier, 'proof', seed)
    return run_all_configs(run, tier, res)
