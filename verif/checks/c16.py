"""C16 - library calls are re-entrant: no shared mutable state (structural
rule over the IR of exactly the units CMake puts into the two libraries)."""
import os

from .. import build, irparse, rules
from .. import fieldchecks as FC
from ..ctx import load_spec
from ..par import pmap
from ..report import Result, Broken
from . import c01

# externals without hidden state: the three copy routines the library uses, pure string/memory predicates, and the
# no-return failure paths of assert(); every llvm.* intrinsic except the va_* family is stateless
ALLOWED_EXTERNALS = ('memcpy', 'memset', 'memmove', 'memcmp', 'memchr', 'strlen', 'strnlen', 'strcmp', 'strncmp',
                     '__assert_fail', 'abort', '__memcpy_chk', '__memset_chk', '__memmove_chk', '__builtin_speculation_safe_value')
ALLOWED_PREFIXES = ('llvm.',)
DENIED_PREFIXES = ('llvm.va_',)
CTX = None


def scan(mod, library=()):
    """-> (findings, counts); a finding is (key, text)."""
    out = []
    counts = {'globals': 0, 'functions': 0, 'call sites': 0, 'store sites': 0}
    for name, g in sorted(mod.globals.items()):
        if name.startswith('llvm.'):
            continue
        counts['globals'] += 1
        if not g.const:
            where = gl_loc(mod, g)
            kind = 'declared here, defined elsewhere' if g.init is None else 'defined'
            out.append(('global:%s' % name.split('.')[-1] if '.' in name and name.split('.')[0] in mod.functions else 'global:%s' % name,
                        '%s: object @%s has static storage and is writable (%s): state shared between calls and threads'
                        % (where, name, kind)))
    facts = rules.analyse_module(mod)
    for name in sorted(mod.functions):
        fn = mod.functions[name]
        counts['functions'] += 1
        pf = facts[name]
        nth = {}
        for ins in fn.instrs():
            if ins.op == 'call':
                counts['call sites'] += 1
                c = ins.x['callee']
                loc = mod.loc(ins.dbg)
                where = '%s:%s %s' % (FC.rel(loc[0]) if loc else '?', loc[1] if loc else '?', name)
                if c[0] != 'g':
                    if c[0] == 'ce' and c[1] == 'bitcast' and c[2][1][0] == 'g':
                        cal = c[2][1][1]
                    else:
                        out.append(('indirect-call:%s' % name, '%s: indirect call - the callee and its effects are unknown' % where))
                        continue
                else:
                    cal = c[1]
                if cal in mod.functions or cal in library:
                    continue
                if (cal in ALLOWED_EXTERNALS or cal.startswith(ALLOWED_PREFIXES)) and not cal.startswith(DENIED_PREFIXES):
                    continue
                out.append(('extern-call:%s:%s' % (name, cal),
                            '%s: calls %s, which is outside the library and not a known stateless routine (memcpy/memset/memmove/...): hidden state or effects'
                            % (where, cal)))
        for ins, kind, ptr, a, wname in rules.access_sites(mod, fn):
            if kind not in ('store', 'memdst'):
                continue
            counts['store sites'] += 1
            o = pf.val_origin(ptr)
            loc = mod.loc(ins.dbg)
            where = '%s:%s %s' % (FC.rel(loc[0]) if loc else '?', loc[1] if loc else '?', name)
            if o is None:
                out.append(('unresolved-store:%s' % name, '%s: destination of this write could not be traced to an argument or a local' % where))
                continue
            bad = [x for x in o if x.startswith('global:') or x in ('gloaded', 'unknown')]
            if bad:
                k = ('%s:%s' % (name, ','.join(sorted(bad))))
                nth[k] = nth.get(k, 0) + 1
                out.append(('shared-write:%s#%d' % (k, nth[k]),
                            '%s: writes memory reached from %s rather than from an argument or a local'
                            % (where, ', '.join(sorted(bad)))))
    return out, counts


def gl_loc(mod, g):
    if g.dbg:
        import re
        txt = mod.md.get(g.dbg, '')
        m = re.search(r'var: (!\d+)', txt)
        if m:
            vt = mod.md.get(m.group(1), '')
            ml = re.search(r'line: (\d+)', vt)
            mf = re.search(r'file: (!\d+)', vt)
            if mf:
                ft = mod.md.get(mf.group(1), '')
                m2 = re.search(r'filename: "([^"]*)"', ft)
                if m2:
                    return '%s:%s' % (FC.rel(m2.group(1)), ml.group(1) if ml else '?')
    return 'src/avtp'


def positive_control():
    d = build.scratch()
    src = os.path.join(os.path.dirname(os.path.dirname(os.path.dirname(os.path.abspath(__file__)))), 'fixtures', 'c16_positive.c')
    bcs = build.compile_units([src], os.path.join(d, 'pc'), includes=[])
    ll = os.path.join(d, 'pc.ll')
    build.link_ll(bcs, ll)
    mod = irparse.parse_module(open(ll).read(), ll)
    found, _ = scan(mod)
    keys = ' '.join(k for k, _ in found)
    need = ['global:scratch', 'global:call_counter', 'initialised', 'extern-call:fx_calls_hidden_state:rand', 'shared-write:fx_uses_scratch']
    missing = [n for n in need if n not in keys]
    if missing:
        raise Broken('C16 positive control: the rule no longer flags %s in fixtures/c16_positive.c' % missing)
    if any('table' in k for k, _ in found):
        raise Broken('C16 positive control: the constant table of the fixture is flagged (false alarm)')
    return len(found)


def header_inline_modules(ctx):
    """Functions *defined in the public headers* (static inline) are compiled into the consumer's translation unit,
    not into the library: one unit per header that takes the address of each of them (so that clang emits them) is
    compiled and handed to the same rules.  -> [(header, module, [function names])]"""
    import re
    from .c20 import headers
    out = []
    d = os.path.join(ctx.workdir, 'hdr_inline_' + ctx.target)
    os.makedirs(d, exist_ok=True)
    _, std = build.library_units()
    for k, h in enumerate(headers()):
        text = open(os.path.join(build.REPO, 'include', h), errors='replace').read()
        text = re.sub(r'/\*.*?\*/', ' ', text, flags=re.S)
        names = sorted(set(m.group(1) for m in re.finditer(
            r'\b(?:static\s+(?:inline|__inline__|__inline)|(?:inline|__inline__|__inline)\s+static)\b[^;{}()]*?\b(\w+)\s*\([^;{}]*\)\s*\{', text)))
        if not names:
            continue
        src = os.path.join(d, 'inl_%d.c' % k)
        with open(src, 'w') as f:
            f.write('#include "%s"\n' % h)
            for n in names:
                f.write('void *verif_keep_%s = (void *)%s;\n' % (n, n))
        try:
            bcs = build.compile_units([src], os.path.join(d, 'bc%d' % k), target=ctx.target, std=std)
        except build.BuildError as e:
            raise Broken('unit instantiating the inline functions of include/%s does not compile: %s' % (h, str(e)[-300:]))
        ll = os.path.join(d, 'inl_%d.ll' % k)
        build.link_ll(bcs, ll)
        out.append((h, irparse.parse_module(open(ll).read(), ll), names))
    return out


def _getter_effects(t):
    fmt, idx, path = t
    f = CTX.formats[fmt]
    r = FC.judge_getter(CTX, f, f['fields'][idx], path)
    bad = [i for i in r['issues'] if i[0] == 'C16' or i[2].endswith(':writes')]
    return bad


def run(ctx, tier, res, tag=''):
    global CTX
    CTX = ctx
    floors = load_spec('floors.json')
    ctx.facts()
    npos = positive_control()
    res.count('positive-control constructs flagged in fixtures/c16_positive.c', npos)
    mod = ctx.mod
    found, counts = scan(mod)
    for k, v in counts.items():
        res.count('library %s inspected' % k, v)
    if counts['functions'] < floors['C16_min_functions'] or counts['store sites'] < floors['C16_min_store_sites']:
        raise Broken('only %d functions / %d store sites found in the library IR (floors %d / %d)'
                     % (counts['functions'], counts['store sites'], floors['C16_min_functions'], floors['C16_min_store_sites']))
    res.ok(counts['globals'] + counts['call sites'] + counts['store sites'] - len(found))
    for key, text in found:
        res.violation(key + tag, text)
    # functions defined in the public headers live in the consumer's unit: same rules
    if not tag:
        ninl = 0
        for h, m, names in header_inline_modules(ctx):
            f2, c2 = scan(m, library=ctx.mod.functions)
            ninl += len(names)
            bad = [(k, t) for (k, t) in f2 if not k.startswith('global:verif_keep_')]
            res.ok(len(names) if not bad else 0)
            for key, text in bad:
                res.violation('header-inline:%s:%s' % (os.path.basename(h), key), 'include/%s (inline functions compiled into the '
                              'caller\'s unit): %s' % (h, text))
        res.count('functions defined in public headers inspected (static inline)', ninl)
    # units: exactly what CMake builds into the libraries
    res.extra['units'] = ['%s: %s' % u for u in ctx.units]
    listed = set(s for (_, s) in ctx.units)
    extra_src = []
    for root, _, files in os.walk(os.path.join(build.REPO, 'src')):
        for fn in files:
            if fn.endswith('.c'):
                relp = os.path.relpath(os.path.join(root, fn), build.REPO)
                if relp not in listed:
                    extra_src.append(relp)
    for e in sorted(extra_src):
        res.notes.append('source file %s is under src/ but not part of either library in CMakeLists.txt: not analysed' % e)
    # (e) "only the objects passed to them": the builders and the VSS finaliser write nothing outside the message they
    # are given and never write the caller's payload source (measured by the engine; the full image obligations of
    # these functions belong to C06/C09 and are not repeated here)
    from . import c06, c09
    for cm in (c06, c09):
        tmp = Result('C16', tier, 'proof')
        cm.run(ctx, tier, tmp, tag)
        nrel = 0
        for v in tmp.violations:
            if any(x in v['key'] for x in (':beyond', ':payload-written', ':fault', ':extent')):
                nrel += 1
                res.violation('objects-passed:' + v['key'], v['text'])
        res.count('builder/finaliser runs checked for writes outside the objects passed' + tag, max(tmp.obligations, 1))
        if not nrel:
            res.ok()
    # (d) readers leave shared PDUs untouched
    ts = c01.tasks(ctx)
    outs = pmap(_getter_effects, ts)
    for t, bad in zip(ts, outs):
        res.count('readers checked for an empty write set')
        if not bad:
            res.ok()
        for (_, kind, key, text) in bad:
            if kind == 'violation':
                res.violation('reader-writes:' + key + tag, text)
            else:
                res.undec(text)
    res.sample({'globals': sorted(n for n in mod.globals if not n.startswith('llvm.'))[:6], 'all_constant': not any(k.startswith('global:') for k, _ in found)})
    res.sample({'external_callees_seen': sorted(set(i.x['callee'][1] for f in mod.functions.values() for i in f.instrs()
                                                   if i.op == 'call' and i.x['callee'][0] == 'g' and i.x['callee'][1] not in mod.functions))})
    res.rule = ('(a) every object with static storage in the two libraries is constant; (b) every external callee is memcpy/memset/memmove; '
                '(c) every store and write intrinsic targets memory traced (pointer-provenance dataflow) to a pointer argument, a pointer '
                'loaded from argument-reachable memory, or a local; (d) every reader has an empty write set. A fixture with a static '
                'scratch buffer, a function-local static, a writable global and a call to rand() must be flagged on every run')
    res.explanation = res.rule
    res.extra['exhaustive'] = True
    return res


def main(tier, seed):
    from ..ctx import run_all_configs
    res = Result('C16', tier, 'proof', seed)
    return run_all_configs(run, tier, res)
