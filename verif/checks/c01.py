"""C01 - field reads return exactly the bits the wire format assigns."""
from .. import fieldchecks as FC
from .. import generic
from ..par import pmap
from ..report import Result

CTX = None


def _one(task):
    fmt, idx, path = task
    f = CTX.formats[fmt]
    return FC.judge_getter(CTX, f, f['fields'][idx], path)


def tasks(ctx):
    out = []
    for f in ctx.spec['formats']:
        for i, fld in enumerate(f['fields']):
            out.append((f['format'], i, 'id'))
            if fld['getter']:
                out.append((f['format'], i, 'ded'))
    return out


def run(ctx, tier, res=None, prop='C01', tag=''):
    global CTX
    CTX = ctx
    res = res or Result('C01', tier, 'proof')
    ctx.facts()
    ts = tasks(ctx)
    recs = pmap(_one, ts)
    for t, r in zip(ts, recs):
        mine = [i for i in r['issues'] if i[0] == 'C01']
        res.count('accessor functions analysed' + tag)
        if not mine:
            res.ok()
            if t[2] == 'ded' or len(res.samples) < 3:
                res.sample({'function': r['fn'], 'field': '%s.%s' % (t[0], r['field']),
                            'return_bits': r['R'], 'result_msb_first':
                            FC.B.fmt_vec(r['ret'], r['R']) if r['ret'] is not None else None,
                            'pdu_octets_read': r['reads'], 'verdict': 'equals spec bits, no write'})
        for (_, kind, key, text) in mine:
            if kind == 'violation':
                res.violation(key + tag, text)
            else:
                res.undec(text)
    generic.run_reader(ctx, tier, res, tag)
    res.rule = ('one obligation per (format, field, access path): the closed-form result of the reader over a fully '
                'symbolic header must equal the field bits of spec/formats.json, zero-extended, with an empty write set; '
                'plus one obligation per synthetic descriptor handed to Avtp_GetField')
    return res


def main(tier, seed):
    from ..ctx import run_all_configs
    res = Result('C01', tier, 'proof', seed)
    return run_all_configs(run, tier, res)
