"""C01 - field reads return exactly the bits the wire format assigns."""
from .. import fieldchecks as FC
from .. import generic
from ..par import pmap
from ..report import Result

CTX = None


def _one(task):
    fmt, idx, path = task
    f = CTX.formats[fmt]
    return FC.judge_getter(CTX, f, f['fields'][idx], path)


def tasks(ctx):
    out = []
    for f in ctx.spec['formats']:
        for i, fld in enumerate(f['fields']):
            out.append((f['format'], i, 'id'))
            if fld['getter']:
                out.append((f['format'], i, 'ded'))
    return out


def run(ctx, tier, res=None, prop='C01', tag=''):
    global CTX
    CTX = ctx
    res = res or Result('C01', tier, 'proof')
    ctx.facts()
    ts = tasks(ctx)
    recs = pmap(_one, ts)
    for t, r in zip(ts, recs):
        mine = [i for i in r['issues'] if i[0] == 'C01']
        res.count('accessor functions analysed' + tag)
        if not mine:
            res.ok()
            if t[2] == 'ded' or len(res.samples) < 3:
                res.sample({'function': r['fn'], 'field': '%s.%s' % (t[0], r['field']),
                            'return_bits': r['R'], 'result_msb_first':
                            FC.B.fmt_vec(r['ret'], r['R']) if r['ret'] is not None else None,
                            'pdu_octets_read': r['reads'], 'verdict': 'equals spec bits, no write'})
        for (_, kind, key, text) in mine:
            if kind == 'violation':
                res.violation(key + tag, text)
            else:
                res.undec(text)
    # prototype clause: a getter whose declared return type is signed and exactly as wide as the field hands the caller
    # a negative number for values with the top bit set - widened, it is not the field's unsigned value any more
    facts = ctx.facts()
    for f in ctx.spec['formats']:
        for fld in f['fields']:
            g = fld.get('getter')
            if not g or g not in ctx.mod.functions:
                continue
            res.count('getter return types inspected' + tag)
            R = FC.ret_width(ctx.mod, ctx.mod.functions[g])
            uns = facts.get('verif_retuns_' + g)
            if uns == 0 and R is not None and fld['width'] >= R:
                res.violation('%s:%s:get-ded:signed-return%s' % (f['format'], fld['name'], tag),
                              '%s: the %d-bit field %s.%s is returned through a signed %d-bit type: values with the top bit set '
                              'reach the caller as negative numbers (sign-extended when widened), not as the unsigned field value'
                              % (FC.fnloc(ctx, g), fld['width'], f['format'], fld['name'], R))
            else:
                res.ok()
    from .. import promises
    promises.report(ctx, res, FC.accessor_functions(ctx, 'get'), promises.MEMORY_KINDS, tag)
    generic.run_reader(ctx, tier, res, tag)
    res.rule = ('one obligation per (format, field, access path): the closed-form result of the reader over a fully '
                'symbolic header must equal the field bits of spec/formats.json, zero-extended, with an empty write set; '
                'plus one obligation per synthetic descriptor handed to Avtp_GetField')
    return res


def main(tier, seed):
    from ..ctx import run_all_configs
    res = Result('C01', tier, 'proof', seed)
    return run_all_configs(run, tier, res)
