"""C18 - example listeners survive arbitrary datagrams (PARTIAL: named
necessary conditions only, see DESIGN.md 4.18).

Decided clauses, per listener program, on SSA-form IR:
  K1  every receive call writes at most the size of its destination object;
  K2  no copy of constant length leaves its source/destination object;
  K3  a value read from the datagram (library getter on the receive buffer,
      direct load, decoder out-parameter) must be dominated by a bounding
      comparison before it is used as a copy length, an index/offset into an
      object or a variable-length-array size;
  K4  a loop whose position advances by a wire value needs a non-zero guard;
  K5  %s must not print receive-buffer bytes; decoder result objects must have
      their members set before the call;
  K6  an object handed to free() is not accessed (or freed again) at a point
      that free() dominates;
  K7  an index or copy length computed from the receive count stays inside the
      object for every count the dominating comparisons allow (interval of the
      count: -1 .. receive length, refined edge by edge);
  K8  an offset fixed by the control flow alone (constants, additions, phis)
      stays inside the object it indexes - an offset not reset on every path
      round the receive loop accumulates from datagram to datagram;
  K9  a heap object remembered in a writable global pointer and handed to free()
      must have that global updated by the function that frees it;
  K10 a divisor taken from the datagram is guarded by a dominating non-zero test.
Not decided: everything else in the statement (absence of every memory error,
termination in general, liveness after a bad datagram)."""
from .. import build, irparse, taint
from ..ctx import load_spec
from ..report import Result, Broken

LISTENERS = ['acf-can-listener', 'cvf-listener', 'aaf-listener', 'hello-world-listener', 'acf-vss-listener', 'crf-listener']


def analyse_listener(name, workdir):
    try:
        ll, srcs = build.build_example_ir(name, workdir)
    except build.BuildError as e:
        raise Broken(str(e))
    mod = irparse.parse_module(open(ll).read(), ll)
    an = taint.Analysis(mod)
    return mod, an, srcs


def run(tier, res):
    floors = load_spec('floors.json')
    d = build.scratch()
    total_recv = 0
    for name in LISTENERS:
        mod, an, srcs = analyse_listener(name, d)
        nrecv = sum(1 for f in mod.functions.values() for i in f.instrs() if i.op == 'call' and taint.callee_name(i) in taint.RECV)
        ngetters = sum(1 for f in mod.functions.values() for i in f.instrs()
                       if i.op == 'call' and taint.is_lib(taint.callee_name(i)))
        nsinks = sum(1 for f in mod.functions.values() for i in f.instrs()
                     if (i.op == 'call' and (taint.mem_intrinsic(taint.callee_name(i)) or taint.callee_name(i) in taint.RECV
                                             or taint.callee_name(i) in taint.PRINTF))
                     or i.op == 'getelementptr' or (i.op == 'alloca' and i.x['count'] is not None))
        res.count('listeners analysed')
        res.count('receive calls found', nrecv)
        res.count('library calls on listener data paths inspected', ngetters)
        res.count('candidate sink sites inspected (copies, receives, indexings, VLAs, printf)', nsinks)
        total_recv += nrecv
        if nrecv == 0 or not an.wire:
            raise Broken('%s: no receive call / receive buffer found - the rule would pass vacuously' % name)
        fs = an.findings()
        res.ok(max(nsinks - len(fs), 0))
        ordinal = {}
        # a finding is identified by the program, the clause and its rank in source order - not by the function it
        # sits in, so that moving the same flow into a helper function does not make it a different finding
        for f in sorted(fs, key=lambda x: (x['loc'][0], x['loc'][1], x['kind'])):
            base = '%s:%s' % (name, f['kind'])
            ordinal[base] = ordinal.get(base, 0) + 1
            key = '%s#%d' % (base, ordinal[base])
            res.violation(key, '%s:%s %s (%s): %s' % (f['loc'][0], f['loc'][1], f['fn'], name, f['text']))
        tainted = sorted(set(l for (fn, r), labs in an.taint.items() for l in labs))
        res.sample({'listener': name, 'receive_buffers': sorted(an.wire), 'wire_value_sources': tainted[:12],
                    'findings': len(fs)}, limit=8)
    if total_recv < floors.get('C18_min_recv_calls', 6):
        raise Broken('only %d receive calls found over all listeners' % total_recv)
    res.explanation = __doc__
    res.rule = 'K1-K10 as in the module docstring, over %d listener programs' % len(LISTENERS)
    build.cleanup()
    return res


def main(tier, seed):
    res = Result('C18', tier, 'other', seed)
    return run(tier, res)
