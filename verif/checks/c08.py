"""C08 - VSS decoding inverts encoding and honours the length-query convention
(exact per shape; message contents symbolic, control octets from the
reference encoder)."""
from .. import bits as B
from .. import bpa
from .. import vss as V
from .. import fieldchecks as FC
from ..bpa import Ptr, Region, NULL
from ..par import pmap
from ..report import Result
from . import c07

CTX = None
GET_PATH = 'Avtp_Vss_GetVssPath'
GET_DATA = 'Avtp_Vss_GetVssData'
CALC = 'Avtp_Vss_CalcVssPathLength'


def message(ctx, mode, plen, code, count):
    """exact-extent message region with the reference encoder's control octets"""
    name, ew, kind = V.DATATYPES[code]
    pw = V.path_wire_len(mode, plen)
    dw = V.data_wire_len(code, count)
    total = V.H + pw + dw
    pdu = Region(V.PDU, 'sym', total)
    V.header_precondition(pdu, mode, code)
    if mode == V.INTEROP:
        for j, b in enumerate(V.be_bytes_of(plen, 2)):
            pdu.mem[V.H + j] = b
    o = V.H + pw
    if kind != 'scalar':
        for j, b in enumerate(V.be_bytes_of(count * ew, 2)):
            pdu.mem[o + j] = b
    return pdu, total, o


def host_value_from_wire(region, off, n):
    """value (lsb-first bits) of the n big-endian octets at off"""
    out = []
    for j in range(n - 1, -1, -1):
        out.extend(V.In(region, off + j))
    return tuple(out)


def _one(t):
    ctx = CTX
    mod = ctx.mod
    mode, plen, code, count, nulldst = t
    name, ew, kind = V.DATATYPES[code]
    poff, ssz = V.ptr_off(mod)
    desc = '%s path (%d octets) + %s x%d%s' % ('static-id' if mode == V.STATIC else 'interop', plen, name, count,
                                               ', no destination' if nulldst else '')
    key = 'decode:m%d:p%d:t%02x:n%d:%s' % (mode, plen, code, count, 'null' if nulldst else 'dst')
    out = []
    nbytes = count * ew

    def regions():
        pdu, total, dataoff = message(ctx, mode, plen, code, count)
        r = {V.PDU: pdu}
        pobj = Region('pathobj', 'sym', ssz)
        if mode == V.INTEROP:
            V.poke_ptr(mod, pobj, poff, Ptr('pathdst', 0))
            r['pathdst'] = Region('pathdst', 'sym', plen)
        r['pathobj'] = pobj
        val = Region('val', 'sym', 8)
        if kind != 'scalar':
            V.poke_ptr(mod, val, 0, Ptr('arr', 0))
            arr = Region('arr', 'sym', ssz)
            if nulldst:
                V.poke_ptr(mod, arr, poff, None)
            else:
                V.poke_ptr(mod, arr, poff, Ptr('dst', 0))
                r['dst'] = Region('dst', 'sym', nbytes)
            r['arr'] = arr
        r['val'] = val
        return r
    _, total, dataoff = message(ctx, mode, plen, code, count)
    rets = {}

    def script(m, _):
        rets['calc'] = m.call(CALC, [Ptr(V.PDU, 0)])
        m.call(GET_PATH, [Ptr(V.PDU, 0), Ptr('pathobj', 0)])
        m.call(GET_DATA, [Ptr(V.PDU, 0), Ptr('val', 0)])
        return None
    results = []

    def script2(m, _):
        rets.clear()
        script(m, _)
        results.append(dict(rets))
        return None
    ws = bpa.analyse(mod, script2, lambda: ([], regions()), max_worlds=32, max_steps=12000000, gcache=ctx.gcache, oob_limit=0)
    where = FC.fnloc(ctx, GET_DATA)
    # pair every finished world with the return values recorded during its execution
    done = [w for w in ws if w.status in ('ok',)]
    oks, err = FC.ok_worlds(ws)
    if err:
        df = FC.definite_fault(ws)
        if df:
            return [('violation', key + ':fault', '%s [%s]: %s' % (where, desc, df))], 0
        return [('undecided', key, '%s [%s]: %s' % (where, desc, err))], 0
    # results[] has one entry per execution that reached the end of the script, in execution order
    k = 0
    pairs = []
    for w in ws:
        if w.status == 'ok':
            pairs.append((w, results[k] if k < len(results) else {}))
            k += 1
    for w, rr in pairs:
        if w not in oks:
            continue
        with FC.with_world(w.decisions):
            _judge_world(ctx, mod, t, w, rr, out, key, desc, where, total, dataoff)
        if out:
            break
    return out, (0 if out else 1)


def _judge_world(ctx, mod, t, w, rets, out, key, desc, where, total, dataoff):
    mode, plen, code, count, nulldst = t
    name, ew, kind = V.DATATYPES[code]
    nbytes = count * ew
    R = w.regions
    # on-wire path size
    want = V.path_wire_len(mode, plen)
    if rets.get('calc') != want:
        out.append(('violation', key + ':calc', '%s [%s]: reports an on-wire path size of %r, the message has %d'
                    % (FC.fnloc(ctx, CALC), desc, rets['calc'], want)))
    # path
    if mode == V.STATIC:
        got = V.peek(mod, R['pathobj'], 0, 4)
        exp = host_value_from_wire(V.PDU, V.H, 4)
        st, info = FC.compare_vec(got, exp, 32)
        if st != 'eq':
            out.append(('violation' if st == 'differs' else 'undecided', key + ':static-id',
                        '%s [%s]: decoded static id bit %s differs from the big-endian value on the wire' % (FC.fnloc(ctx, GET_PATH), desc, info if st != 'differs' else info[0])))
        extra = [o for o in R['pathobj'].writes if o >= 4]
        if extra:
            out.append(('violation', key + ':path-extra', '%s [%s]: writes octets %s of the path object beyond the 32-bit id' % (FC.fnloc(ctx, GET_PATH), desc, extra)))
    else:
        got = V.peek(mod, R['pathobj'], 0, 2)
        stp, infop = FC.compare_vec(got, plen, 16)
        if stp != 'eq':
            out.append(('violation' if stp == 'differs' else 'undecided', key + ':path-len',
                        '%s [%s]: reports path length %s, the message says %d' % (FC.fnloc(ctx, GET_PATH), desc, got if isinstance(got, int) else B.fmt_vec(got, 16), plen)))
        exp = [V.In(V.PDU, V.H + 2 + i) for i in range(plen)]
        st, text = V.compare_region(R['pathdst'], exp)
        if st != 'ok':
            out.append((st, key + ':path-bytes', '%s [%s]: %s' % (FC.fnloc(ctx, GET_PATH), desc, text)))
    # value
    if kind == 'scalar':
        got = V.peek(mod, R['val'], 0, ew)
        exp = host_value_from_wire(V.PDU, dataoff, ew)
        st, info = FC.compare_vec(got, exp, ew * 8)
        if st != 'eq':
            out.append(('violation' if st == 'differs' else 'undecided', key + ':value',
                        '%s [%s]: decoded value bit %s is not the corresponding bit of the big-endian wire value'
                        % (where, desc, info[0] if st == 'differs' else info)))
        extra = [o for o in R['val'].writes if o >= ew]
        if extra:
            out.append(('violation', key + ':value-extra', '%s [%s]: writes octets %s of the result object beyond the %d-octet value'
                        % (where, desc, extra, ew)))
    else:
        got = V.peek(mod, R['arr'], 0, 2)
        stl, infol = FC.compare_vec(got, nbytes, 16)
        if stl == 'differs':
            out.append(('violation', key + ':length', '%s [%s]: reports data_length %s, the message says %d; witness: %s'
                        % (where, desc, got if isinstance(got, int) else B.fmt_vec(got, 16), nbytes, FC.fmt_env(infol[1]))))
        elif stl == 'unknown':
            out.append(('undecided', key + ':length', '%s [%s]: reported data_length undetermined' % (where, desc)))
        ptr_written = [o for o in R['arr'].writes if o >= 2]
        if ptr_written:
            out.append(('violation', key + ':arr-extra', '%s [%s]: overwrites octets %s of the caller\'s array descriptor' % (where, desc, ptr_written)))
        if R['val'].writes:
            out.append(('violation', key + ':val-written', '%s [%s]: overwrites the caller\'s VssData_t pointer' % (where, desc)))
        if not nulldst:
            exp = []
            for k in range(count):
                for i in range(ew):
                    src = dataoff + 2 + k * ew + ((ew - 1 - i) if not mod.big_endian else i)
                    exp.append(V.In(V.PDU, src))
            st, text = V.compare_region(R['dst'], exp)
            if st != 'ok':
                out.append((st, key + ':elements', '%s [%s]: %s' % (where, desc, text)))
    if w.regions[V.PDU].writes:
        out.append(('violation', key + ':message-written', '%s [%s]: decoding writes the message' % (where, desc)))
    if w.oob:
        out.append(('violation', key + ':extent', '%s [%s]: %s - outside the message / the destination of the reported length'
                    % (where, desc, FC.fmt_oob(w.oob[0]))))


def shapes(tier):
    out = []
    for (mode, pl, code, n) in c07.shapes(tier):
        kind = V.DATATYPES[code][2]
        out.append((mode, pl, code, n, False))
        if kind != 'scalar' and pl in (0, 13, 33, 128) and (n <= 40 or n in (128, 255, 256, 510, 511, 512, 32768, 65535) or
                                                                   n == 65535 // V.DATATYPES[code][1]):
            out.append((mode, pl, code, n, True))
    return out


def run(ctx, tier, res, tag=''):
    global CTX
    CTX = ctx
    ctx.facts()
    for fn in (GET_PATH, GET_DATA, CALC):
        ctx.fn(fn)
    sh = shapes(tier)
    # light shapes first; the heavy ones (messages of several thousand octets) only if the light ones hold - on a
    # broken tree they fail the same way and cost minutes each, and the verdict is a violation already
    def weight(t):
        return V.path_wire_len(t[0], t[1]) + V.data_wire_len(t[2], t[3])
    light = [t for t in sh if weight(t) <= 4096]
    heavy = [t for t in sh if weight(t) > 4096]
    outs1 = pmap(_one, light)
    if any(issues for (issues, n_ok) in outs1) and heavy:
        res.notes.append('%d large %s shapes were not analysed%s: smaller shapes already fail' % (len(heavy), 'decode', tag))
        sh, outs = light, outs1
    else:
        sh, outs = light + heavy, outs1 + pmap(_one, heavy)
    for t, (issues, n_ok) in zip(sh, outs):
        res.count('decode shapes analysed (mode x path length x datatype x count x destination)' + tag)
        res.ok(n_ok)
        for (st, key, text) in issues:
            if st == 'violation':
                res.violation(key + tag, text)
            else:
                res.undec(text)
        if n_ok and t in ((V.INTEROP, 13, 0x8A, 3, False), (V.STATIC, 0, 0x09, 1, False), (V.INTEROP, 13, 0x8B, 5, True)):
            res.sample({'address_mode': 'static-id' if t[0] else 'interop', 'path_octets': t[1], 'datatype': V.DATATYPES[t[2]][0],
                        'count': t[3], 'destination': 'none (length query)' if t[4] else 'exact-extent buffer',
                        'verdict': 'result objects = reference decoder output bit for bit (floats as bit patterns); reads inside the '
                                   'message; writes inside the reported length'})
    from .. import promises
    promises.report(ctx, res, [GET_PATH, GET_DATA, CALC], promises.MEMORY_KINDS, tag)
    res.rule = ('per shape of C07 (plus the null-destination variant of every variable-length type): CalcVssPathLength, GetVssPath and '
                'GetVssData interpreted on an exact-extent message whose control octets come from the reference encoder and whose payload '
                'octets are symbolic; result objects must equal the reference decoder output, nothing may be read outside the message or '
                'written outside the reported length, and a null destination must leave everything but data_length untouched')
    res.assumptions.append('uniformity in the two lengths is not proved: the verdict is exact for each enumerated shape')
    return res


def main(tier, seed):
    from ..ctx import run_all_configs
    res = Result('C08', tier, 'proof', seed)
    return run_all_configs(run, tier, res, strict=True)
