"""C10 - VSS string-array packing round-trips and stays inside its buffers
(exact per list shape; string bytes symbolic)."""
from .. import bits as B
from .. import bpa
from .. import vss as V
from .. import fieldchecks as FC
from ..bpa import Ptr, Region, NULL
from ..par import pmap
from ..report import Result

CTX = None
PACK = 'Avtp_Vss_SerializeStringArray'
COUNT = 'Avtp_Vss_GetVSSDataStringArrayLength'
UNPACK = 'Avtp_Vss_DeserializeStringArray'


def lists(tier):
    import itertools
    ls = [[], [2, 0, 7, 1]]
    alphabet = [0, 1, 5, 130, 255, 300] if tier != 'thorough' else [0, 1, 2, 3, 127, 128, 255, 256, 300, 511, 512]
    for n in (1, 2, 3):
        for combo in itertools.product(alphabet, repeat=n):
            ls.append(list(combo))
    ls.append([(0, 1, 5)[i % 3] for i in range(300)])          # more than 255 strings
    ls.append([0] * 256)
    if tier == 'thorough':
        ls.append([65533])
        ls.append([32767, 32764])
        ls.append([i % 7 for i in range(2000)])
        ls.append([0] * 1000)
    return ls


def packed_region(lens, symbolic_name='packed'):
    total = sum(2 + l for l in lens)
    r = Region(symbolic_name, 'sym', total)
    o = 0
    for l in lens:
        for j, b in enumerate(V.be_bytes_of(l, 2)):
            r.mem[o + j] = b
        o += 2 + l
    return r, total


def _pack(lens):
    ctx = CTX
    mod = ctx.mod
    poff, ssz = V.ptr_off(mod)
    n = len(lens)
    total = sum(2 + l for l in lens)
    P = mod.ptr_bytes

    def regions():
        r = {}
        arr = Region('arr', 'sym', ssz)
        V.poke_ptr(mod, arr, poff, Ptr('packed', 0))
        r['arr'] = arr
        r['packed'] = Region('packed', 'sym', total)
        sv = Region('strv', 'sym', max(n * P, 1))
        for k, l in enumerate(lens):
            V.poke_ptr(mod, sv, k * P, Ptr('s%d' % k, 0))
            s = Region('s%d' % k, 'sym', ssz)
            V.poke(mod, s, 0, 2, l)
            V.poke_ptr(mod, s, poff, Ptr('s%db' % k, 0))
            r['s%d' % k] = s
            r['s%db' % k] = Region('s%db' % k, 'sym', l)
        r['strv'] = sv
        return r
    fn = ctx.fn(PACK)
    ws = bpa.analyse(mod, PACK, lambda: ([Ptr('arr', 0), Ptr('strv', 0), n], regions()), max_worlds=8, max_steps=3000000, gcache=ctx.gcache)
    desc = 'list of %d strings, lengths %s' % (n, lens if n <= 8 else '%s...' % lens[:6])
    key = 'pack:%s' % shape_key(lens)
    where = FC.fnloc(ctx, PACK)
    oks, err = FC.ok_worlds(ws)
    if err:
        df = FC.definite_fault(ws)
        if df:
            return [('violation', key + ':fault', '%s [%s]: %s' % (where, desc, df))], 0
        return [('undecided', key, '%s [%s]: %s' % (where, desc, err))], 0
    out = []
    exp = []
    for k, l in enumerate(lens):
        exp.extend(V.be_bytes_of(l, 2))
        exp.extend(V.In('s%db' % k, i) for i in range(l))
    for w in oks:
        with FC.with_world(w.decisions):
            st, text = V.compare_region(w.regions['packed'], exp)
            if st != 'ok':
                out.append((st, key + ':bytes', '%s [%s]: %s' % (where, desc, text)))
            got = V.peek(mod, w.regions['arr'], 0, 2)
            stt, info = FC.compare_vec(got, total & 0xffff, 16)
            if stt != 'eq':
                out.append(('violation' if stt == 'differs' else 'undecided', key + ':total',
                            '%s [%s]: records a total length of %s, the packed array has %d octets'
                            % (where, desc, got if isinstance(got, int) else 'a symbolic value', total)))
        if w.oob:
            out.append(('violation', key + ':extent', '%s [%s]: %s' % (where, desc, FC.fmt_oob(w.oob[0]))))
        if out:
            break
    return out, (0 if out else 1)


def shape_key(lens):
    if len(lens) <= 8:
        return 'n%d:%s' % (len(lens), '-'.join(str(x) for x in lens))
    return 'n%d:sum%d' % (len(lens), sum(lens))


def _count(lens):
    ctx = CTX
    mod = ctx.mod
    poff, ssz = V.ptr_off(mod)
    n = len(lens)

    def regions():
        pk, total = packed_region(lens)
        arr = Region('arr', 'sym', ssz)
        V.poke(mod, arr, 0, 2, total)
        V.poke_ptr(mod, arr, poff, Ptr('packed', 0))
        return {'arr': arr, 'packed': pk}
    fn = ctx.fn(COUNT)
    R = FC.ret_width(mod, fn)
    ws = bpa.analyse(mod, COUNT, lambda: ([Ptr('arr', 0)], regions()), max_worlds=8, max_steps=3000000, gcache=ctx.gcache)
    desc = 'packed array of %d strings' % n
    key = 'count:%s' % shape_key(lens)
    where = FC.fnloc(ctx, COUNT)
    oks, err = FC.ok_worlds(ws)
    if err:
        df = FC.definite_fault(ws)
        if df:
            return [('violation', key + ':fault', '%s [%s]: %s' % (where, desc, df))], 0
        return [('undecided', key, '%s [%s]: %s' % (where, desc, err))], 0
    out = []
    for w in oks:
        if not isinstance(w.ret, int):
            out.append(('undecided', key, '%s [%s]: symbolic count' % (where, desc)))
        elif w.ret != n:
            if isinstance(w.ret, int) and w.ret == n % (1 << R) and n >= (1 << R):
                out.append(('violation', 'count:return-narrow', '%s: returns %d for an array holding %d strings: the %d-bit return type cannot express the count'
                            % (where, w.ret, n, R)))
            else:
                out.append(('violation', key + ':value', '%s [%s]: returns %r' % (where, desc, w.ret)))
        if w.oob:
            out.append(('violation', key + ':extent', '%s [%s]: %s - beyond the recorded length' % (where, desc, FC.fmt_oob(w.oob[0]))))
        if any(r.writes for nme, r in w.regions.items() if not nme.startswith('%')):
            out.append(('violation', key + ':writes', '%s [%s]: counting writes memory' % (where, desc)))
        if out:
            break
    return out, (0 if out else 1)


def _unpack(t):
    ctx = CTX
    mod = ctx.mod
    lens, num, nulldst = t
    poff, ssz = V.ptr_off(mod)
    n = len(lens)
    P = mod.ptr_bytes

    def isnull(k):
        # destinations may be given per string: True = none, 'first' = all but string 0, 'rest' = only string 0
        return nulldst is True or (nulldst == 'first' and k == 0) or (nulldst == 'rest' and k > 0)

    def regions():
        pk, total = packed_region(lens)
        arr = Region('arr', 'sym', ssz)
        V.poke(mod, arr, 0, 2, total)
        V.poke_ptr(mod, arr, poff, Ptr('packed', 0))
        r = {'arr': arr, 'packed': pk}
        sv = Region('strv', 'sym', max(num * P, 1))
        for k in range(num):
            V.poke_ptr(mod, sv, k * P, Ptr('d%d' % k, 0))
            d = Region('d%d' % k, 'sym', ssz)
            l = lens[k] if k < n else 4
            if isnull(k):
                V.poke_ptr(mod, d, poff, None)
            else:
                V.poke_ptr(mod, d, poff, Ptr('d%db' % k, 0))
                r['d%db' % k] = Region('d%db' % k, 'sym', l)
            r['d%d' % k] = d
        r['strv'] = sv
        return r
    ws = bpa.analyse(mod, UNPACK, lambda: ([Ptr('arr', 0), Ptr('strv', 0), num], regions()), max_worlds=8, max_steps=3000000, gcache=ctx.gcache)
    desc = 'packed array of %d strings, %d requested%s' % (n, num, {False: '', True: ', no destinations', 'first': ', no destination for string 0 only',
                                                                    'rest': ', a destination for string 0 only'}[nulldst])
    key = 'unpack:%s:req%+d:%s' % (shape_key(lens), num - n, {False: 'dst', True: 'null', 'first': 'null0', 'rest': 'dst0'}[nulldst])
    where = FC.fnloc(ctx, UNPACK)
    out = []
    ws = [x for x in ws if x.status != 'infeasible' and not B.PathCond(x.decisions).infeasible]
    if not ws or len(ws) >= 8:
        return [('undecided', key, '%s [%s]: %d worlds' % (where, desc, len(ws)))], 0
    for w in ws:
        res1 = _unpack_world(w, mod, lens, num, n, nulldst, isnull, desc, key, where)
        if res1[0]:
            return res1
    return [], 1


def _unpack_world(w, mod, lens, num, n, nulldst, isnull, desc, key, where):
    out = []
    if w.oob:
        out.append(('violation', 'unpack:over-read' if (num > n and w.oob[0][0] == 'packed') else key + ':extent',
                    '%s [%s]: %s - beyond the array\'s recorded length' % (where, desc, FC.fmt_oob(w.oob[0]))))
        return out, 0
    if w.status != 'ok':
        return [('undecided', key, '%s [%s]: %s' % (where, desc, w.reason))], 0
    # offsets of each packed string
    o = 0
    for k in range(num):
        d = w.regions['d%d' % k]
        if k < n:
            got = V.peek(mod, d, 0, 2)
            if got != lens[k]:
                out.append(('violation', key + ':len', '%s [%s]: string %d: reported length %s, packed length %d'
                            % (where, desc, k, got if isinstance(got, int) else 'is not written (keeps its previous content)'
                               if got == V.peek(mod, Region('d%d' % k, 'sym', 2), 0, 2) else B.fmt_vec(got, 16), lens[k])))
                break
            if not isnull(k):
                exp = [V.In('packed', o + 2 + i) for i in range(lens[k])]
                st, text = V.compare_region(w.regions['d%db' % k], exp)
                if st != 'ok':
                    out.append((st, key + ':bytes', '%s [%s]: string %d: %s' % (where, desc, k, text)))
                    break
            o += 2 + lens[k]
        else:
            if d.writes or (not isnull(k) and w.regions['d%db' % k].writes):
                out.append(('violation', key + ':beyond-count', '%s [%s]: destination %d is written although the array holds only %d strings'
                            % (where, desc, k, n)))
                break
        if [x for x in d.writes if x >= 2]:
            out.append(('violation', key + ':desc', '%s [%s]: the caller\'s string descriptor %d is overwritten beyond data_length' % (where, desc, k)))
            break
    return out, (0 if out else 1)




def run(ctx, tier, res, tag=''):
    global CTX
    CTX = ctx
    ctx.facts()
    for fn in (PACK, COUNT, UNPACK):
        ctx.fn(fn)
    ls = lists(tier)
    for label, worker, items in (('pack', _pack, ls), ('count', _count, ls)):
        outs = pmap(worker, items)
        for it, (issues, n_ok) in zip(items, outs):
            res.count('%s shapes analysed%s' % (label, tag))
            res.ok(n_ok)
            seen = set()
            for (st, key, text) in issues:
                if st == 'violation':
                    res.violation(key + tag, text)
                else:
                    res.undec(text)
    ut = []
    for l in ls:
        if len(l) > 300:
            continue
        n = len(l)
        for num in sorted(set([max(n - 1, 0), n, n + 2])):
            ut.append((l, num, False))
        ut.append((l, n, True))
        ut.append((l, n + 1, True))
        if 2 <= n <= 4:
            # the two-pass protocol with destinations per string: an empty string legitimately has none
            ut.append((l, n, 'first'))
            ut.append((l, n, 'rest'))
    outs = pmap(_unpack, ut)
    seenk = set()
    for it, (issues, n_ok) in zip(ut, outs):
        res.count('unpack shapes analysed (list x requested count x destinations)' + tag)
        res.ok(n_ok)
        for (st, key, text) in issues:
            if st == 'violation':
                if key + tag in seenk:
                    res.obligations += 1
                    continue
                seenk.add(key + tag)
                res.violation(key + tag, text)
            else:
                res.undec(text)
    res.sample({'list_lengths': [1, 5, 0], 'packed_octets': 12, 'pack': 'BE16 length + bytes per string, total recorded',
                'count': 3, 'unpack_requested': [2, 3, 5], 'verdict': 'lengths and bytes equal; nothing read beyond octet 12'})
    from .. import promises
    promises.report(ctx, res, [PACK, COUNT, UNPACK], promises.MEMORY_KINDS, tag)
    res.rule = ('per list shape (every list of 1..3 strings with lengths from {0,1,5,130,255,300} [thorough {0,1,2,3,127,128,255,256,300,511,512}], [], [2,0,7,1], 256 empty and 300 mixed strings; thorough adds 1000/2000 strings, 65533 and 32767+32764 octets): '
                'pack, count and unpack interpreted on exact-extent regions with symbolic string bytes; unpack with requested count '
                'k-1, k, k+2 and with/without destinations; results must equal the reference packing and no access may leave the '
                'recorded length or the destinations')
    res.assumptions.append('uniformity in the list length and string lengths is not proved: the verdict is exact for each enumerated shape')
    return res


def main(tier, seed):
    from ..ctx import run_all_configs
    res = Result('C10', tier, 'proof', seed)
    return run_all_configs(run, tier, res, strict=True)
