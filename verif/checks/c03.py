"""C03 - header operations touch only the declared header, whose size is the
standard's."""
from .. import fieldchecks as FC
from .. import bpa
from ..par import pmap
from ..report import Result
from . import c01, c02, c04

CTX = None

PAYLOAD_ACCESSORS = {'Can': 'Avtp_Can_GetPayload'}


def _one(task):
    kind, fmt, idx, path = task
    f = CTX.formats[fmt]
    if kind == 'get':
        return FC.judge_getter(CTX, f, f['fields'][idx], path)
    if kind == 'set':
        return FC.judge_setter(CTX, f, f['fields'][idx], path)
    return FC.judge_init(CTX, f, idx, **c04.init_kwargs(CTX, f, idx))


def run(ctx, tier, res, tag=''):
    global CTX
    CTX = ctx
    facts = ctx.facts()
    # (b) layout facts evaluated by the compiler
    for f in ctx.spec['formats']:
        fmt, hl = f['format'], f['header_len']
        where = 'include/%s' % f['header']
        checks = [('sizeof(%s)' % f['type'], facts.get('verif_sizeof_' + fmt)),
                  ('sizeof(((%s*)0)->header)' % f['type'], facts.get('verif_hdrarr_' + fmt)),
                  ('offsetof(%s, payload)' % f['type'], facts.get('verif_payoff_' + fmt)),
                  (f['len_macro'], facts.get('verif_lenmacro_' + fmt))]
        for what, val in checks:
            res.count('layout facts evaluated' + tag)
            if val is None:
                res.undec('%s: %s could not be evaluated by the compiler' % (where, what))
            elif val != hl:
                res.violation('%s:layout:%s%s' % (fmt, what.split('(')[0] if '(' in what else 'len-macro', tag),
                              '%s: %s is %d but the %s header of the wire format has %d octets'
                              % (where, what, val, fmt, hl))
            else:
                res.ok()
        m = facts.get('verif_lenmacro_' + fmt)
        if m:
            res.count('length macros evaluated as an operand (macro hygiene)' + tag)
            ctxs = [('7 * %s * 3', 'mul', 21 * m), ('1000000 / %s', 'div', 1000000 // m), ('1000003 %% %s', 'mod', 1000003 % m),
                    ('1000 + - %s', 'neg', 1000 - m)]
            bad = [(e % f['len_macro'], facts.get('verif_lenmacro_%s_%s' % (k, fmt)), want) for (e, k, want) in ctxs
                   if facts.get('verif_lenmacro_%s_%s' % (k, fmt)) != want]
            if bad:
                e, got, want = bad[0]
                res.violation('%s:layout:len-macro-operand%s' % (fmt, tag),
                              '%s: %s evaluates to %s, but with the published length %d it must be %d: the macro does not '
                              'expand to a parenthesised expression, so a buffer sized with it is too small'
                              % (where, e, got, m, want))
            else:
                res.ok()
        if hl % 4:
            res.violation('%s:layout:quadlets' % fmt, 'spec header length %d of %s is not a whole number of quadlets' % (hl, fmt))
    res.sample({'layout_fact': 'sizeof(Avtp_Can_t) == offsetof(Avtp_Can_t, payload) == AVTP_CAN_HEADER_LEN == 16',
                'evaluated_by': 'clang-14 constant folding of a generated unit that includes only avtp/acf/Can.h'})
    # (a) extents of every accessor and initialiser on an exact-extent region
    ts = []
    for (fmt, i, path) in c01.tasks(ctx):
        ts.append(('get', fmt, i, path))
    for (fmt, i, path) in c02.tasks(ctx):
        ts.append(('set', fmt, i, path))
    for (fmt, fname) in c04.init_tasks(ctx):
        ts.append(('init', fmt, fname, None))
    recs = pmap(_one, ts)
    shown = 0
    for t, r in zip(ts, recs):
        res.count('functions whose access extent was measured' + tag)
        # undefined behaviour and dependence on memory other than the argument are extent matters too
        mine = [i for i in r['issues'] if i[0] == 'C03' or
                (i[1] == 'violation' and i[2].endswith((':foreign-state', ':undefined', ':undefined-shift')))]
        und = [i for i in r['issues'] if i[1] == 'undecided']
        if und:
            for (_, _, key, text) in und:
                res.undec(text)
            continue
        if not mine:
            res.ok()
            if t[0] == 'set' and shown < 3 and r.get('writes'):
                shown += 1
                res.sample({'function': r['fn'], 'pdu_region_octets': ctx.formats[t[1]]['header_len'],
                            'octets_written': r['writes'], 'verdict': 'inside the header'})
        seen = set()
        for (_, kind, key, text) in mine:
            if key in seen:
                continue
            seen.add(key)
            res.violation(key + tag, text)
    # (c) payload accessors
    for fmt, fname in PAYLOAD_ACCESSORS.items():
        f = ctx.formats[fmt]
        ctx.fn(fname)
        recs = FC.run_call(ctx, fname, lambda: [bpa.Ptr(FC.PDU, 0)], f['header_len'])
        res.count('payload accessors analysed' + tag)
        if len(recs) != 1 or recs[0]['status'] != 'ok':
            res.undec('%s: %s' % (FC.fnloc(ctx, fname), [r['reason'] for r in recs]))
            continue
        ret = recs[0]['ret']
        if isinstance(ret, bpa.Ptr) and ret.region == FC.PDU and ret.off == f['header_len']:
            res.ok()
            res.sample({'function': fname, 'returns': 'pdu + %d' % ret.off})
        else:
            res.violation('%s:payload-accessor%s' % (fmt, tag), '%s: returns %r, expected the address %d octets after the header start'
                          % (FC.fnloc(ctx, fname), ret, f['header_len']))
    from .. import promises
    promises.report(ctx, res, FC.accessor_functions(ctx, 'all') + [fn for (_, fn) in c04.init_tasks(ctx)], promises.MEMORY_KINDS, tag)
    res.rule = ('per function: read and write sets measured by the bit-provenance engine on a PDU region declared exactly '
                'header_len octets long must stay inside it; per format: sizeof, header array bound, offsetof(payload) and '
                'the length macro, as folded by the compiler, must equal the wire-format header length - the macro also when it is '
                'an operand of *, /, % and unary minus')
    return res


def main(tier, seed):
    from ..ctx import run_all_configs
    res = Result('C03', tier, 'proof', seed)
    return run_all_configs(run, tier, res)
