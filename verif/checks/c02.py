"""C02 - field writes store the value in exactly the field's bits."""
from .. import fieldchecks as FC
from .. import generic
from ..par import pmap
from ..report import Result

CTX = None


def _one(task):
    fmt, idx, path = task
    f = CTX.formats[fmt]
    return FC.judge_setter(CTX, f, f['fields'][idx], path)


def tasks(ctx):
    out = []
    for f in ctx.spec['formats']:
        for i, fld in enumerate(f['fields']):
            out.append((f['format'], i, 'id'))
            if fld['setter']:
                out.append((f['format'], i, 'ded'))
    return out


def run(ctx, tier, res, tag=''):
    global CTX
    CTX = ctx
    ctx.facts()
    ts = tasks(ctx)
    recs = pmap(_one, ts)
    for t, r in zip(ts, recs):
        mine = [i for i in r['issues'] if i[0] == 'C02']
        res.count('writer functions analysed' + tag)
        if not mine:
            res.ok()
            if (t[2] == 'ded' and r['field'] in ('can_identifier', 'stream_id', 'gpc_msg_id', 'acf_msg_length')):
                res.sample({'function': r['fn'], 'field': '%s.%s' % (t[0], r['field']), 'value_param_bits': r['P'],
                            'pdu_octets_written': r['writes'],
                            'header_bits_whose_content_changed': r['changed_bits'],
                            'verdict': 'field bits = value bits msb first, every other bit keeps its entry value'})
        for (_, kind, key, text) in mine:
            if kind == 'violation':
                res.violation(key + tag, text)
            else:
                res.undec(text)
    from .. import promises
    promises.report(ctx, res, FC.accessor_functions(ctx, 'set'), promises.MEMORY_KINDS, tag)
    generic.run_writer(ctx, tier, res, tag)
    res.rule = ('one obligation per (format, field, write path): the final memory image over a fully symbolic header and a '
                'fully symbolic value must be value bits (msb first) inside the spec bit range and the entry bits everywhere '
                'else; the value parameter must be at least as wide as the field; plus one obligation per synthetic descriptor '
                'handed to Avtp_SetField')
    return res


def main(tier, seed):
    from ..ctx import run_all_configs
    res = Result('C02', tier, 'proof', seed)
    return run_all_configs(run, tier, res)
