"""C04 - initialisers yield the canonical header whatever the buffer held."""
from .. import fieldchecks as FC
from .. import bits as B
from .. import bpa
from ..par import pmap
from ..report import Result

CTX = None


def init_tasks(ctx):
    out = []
    for f in ctx.spec['formats']:
        if f['init']:
            out.append((f['format'], f['init']['fn']))
        if f.get('legacy') and f['legacy'].get('init'):
            out.append((f['format'], f['legacy']['init']))
    return out


def init_kwargs(ctx, f, fname):
    """extra arguments / expected image for legacy initialisers"""
    leg = f.get('legacy') or {}
    if fname == leg.get('init') and leg.get('init_extra_arg'):
        fn = ctx.fn(fname)
        P = FC.param_width(ctx.mod, fn, 1)
        img = list(FC.expected_image(f))
        byname = {x['name']: x for x in f['fields']}
        fld = byname[leg['init_extra_arg']]
        w = fld['width']
        imgb = [list(B.to_bits(x, 8)) for x in img]
        for hb in FC.field_bits(fld):
            j = fld['bit'] + w - 1 - hb
            imgb[hb // 8][7 - hb % 8] = ('A', 'fs', j) if j < P else 0
        img = [B.norm(x) for x in imgb]
        return {'extra_args': (lambda: [bpa.sym_arg('fs', P)]), 'image': img}
    return {}


def _one(task):
    fmt, fname = task
    f = CTX.formats[fmt]
    return FC.judge_init(CTX, f, fname, **init_kwargs(CTX, f, fname))


def run(ctx, tier, res, tag=''):
    global CTX
    CTX = ctx
    ctx.facts()
    ts = init_tasks(ctx)
    recs = pmap(_one, ts)
    for t, r in zip(ts, recs):
        res.count('initialisers analysed' + tag)
        mine = [i for i in r['issues'] if i[0] == 'C04']
        if not mine:
            res.ok()
            res.sample({'function': r['fn'], 'image_after_init': ' '.join(
                ('%02x' % x) if isinstance(x, int) else B.fmt_vec(x, 8) for x in r.get('image', [])),
                'depends_on_previous_content': False, 'octets_written_after_header': []}, limit=6)
            leg = (ctx.formats[t[0]].get('legacy') or {}).get('init')
            if t[1] == leg and r.get('ret') != 0:
                res.violation('%s:init:%s:ret%s' % (t[0], t[1], tag),
                              '%s: legacy initialiser returns %r for a valid PDU, expected 0' % (FC.fnloc(ctx, t[1]), r.get('ret')))
        for (_, kind, key, text) in mine:
            if kind == 'violation':
                res.violation(key + tag, text)
            else:
                res.undec(text)
    from .. import promises
    promises.report(ctx, res, [fn for (_, fn) in init_tasks(ctx)], promises.MEMORY_KINDS, tag)
    res.rule = ('one obligation per initialiser (current and legacy): with header and trailing memory fully symbolic, the '
                'final header image must be the constant image mandated by spec/formats.json (hence independent of prior '
                'content and idempotent) and no octet after the header may be written')
    return res


def main(tier, seed):
    from ..ctx import run_all_configs
    res = Result('C04', tier, 'proof', seed)
    return run_all_configs(run, tier, res)
