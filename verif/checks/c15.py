"""C15 - results do not depend on where the PDU lies in memory: no access
assumes more alignment than the declared types of its pointer's origin promise
(rule over un-optimised IR of every library unit)."""
import os

from .. import rules
from .. import build
from .. import irparse
from .. import fieldchecks as FC
from ..ctx import load_spec
from ..report import Result, Broken


FACTS = {}


def scan(mod, res=None):
    facts = rules.analyse_module(mod)
    FACTS.clear()
    FACTS.update(facts)
    sites = []
    for name in sorted(mod.functions):
        fn = mod.functions[name]
        pf = facts[name]
        ordinal = {}
        for ins, kind, ptr, a, wname in rules.access_sites(mod, fn):
            g = pf.val_align(ptr)
            o = pf.val_origin(ptr)
            loc = mod.loc(ins.dbg)
            sites.append({'fn': name, 'kind': kind, 'align': a, 'guarantee': g, 'origin': sorted(o) if o else None,
                          'loc': loc, 'width': wname, 'ins': ins, 'ptr': ptr})
        for ins, kind, need, g, desc in rules.escape_sites(mod, fn, pf):
            sites.append({'fn': name, 'kind': kind, 'align': need, 'guarantee': g, 'origin': ['escape'],
                          'loc': mod.loc(ins.dbg), 'width': desc, 'ins': ins})
    return sites


def run(ctx, tier, res, tag=''):
    mod = ctx.mod
    floors = load_spec('floors.json')
    sites = scan(mod)
    n_wire = 0
    per_fn_ord = {}
    unit_lib = {src: lib for (lib, src) in ctx.units}
    sites = sorted(sites, key=lambda x: ((FC.rel(x['loc'][0]) if x['loc'] else '?'), x['loc'][1] if x['loc'] else 0))
    for s in sites:
        res.count('memory access sites analysed' + tag)
        loc = s['loc']
        where = '%s:%s %s' % (FC.rel(loc[0]) if loc else '?', loc[1] if loc else '?', s['fn'])
        if s['guarantee'] is None:
            res.undec('%s: provenance of the address of this %s could not be resolved' % (where, s['kind']))
            continue
        if s['origin'] and any(o.startswith('param:') or o == 'loaded' for o in s['origin']):
            n_wire += 1
        if s['align'] > s['guarantee'] and s['kind'] in ('load', 'store', 'memdst', 'memsrc') and \
                rules.alignment_guarded(mod, mod.functions[s['fn']], FACTS[s['fn']], s['ins'], s['ptr'], s['align']):
            res.ok()
            res.count('typed accesses behind a run-time alignment test (accepted)' + tag)
            continue
        if s['align'] > s['guarantee']:
            # identified by library, access kind and type, and its rank among those (not by file or function: moving the
            # same typed access into a helper or another unit does not make it a new finding; one more site does)
            relf = FC.rel(loc[0]) if loc else '?'
            lib = unit_lib.get(relf, 'custom' if '/custom/' in relf else 'core')
            k = (lib, s['kind'], s['width'])
            per_fn_ord[k] = per_fn_ord.get(k, 0) + 1
            key = '%s:%s:%s#%d' % (lib, s['kind'], s['width'].replace(' ', '_'), per_fn_ord[k])
            if s['kind'] in ('argument', 'stored-pointer', 'returned-pointer'):
                res.violation(key + tag, '%s: %s promises %d-byte alignment to its user, but the pointer\'s provenance only guarantees %d'
                              % (where, s['width'], s['align'], s['guarantee']))
            else:
                res.violation(key + tag,
                              '%s: %s of %s assumes %d-byte alignment, but the address comes from %s whose declared type only promises %d'
                              % (where, s['kind'], s['width'], s['align'], '/'.join(s['origin'] or ['?']), s['guarantee']))
        else:
            res.ok()
    res.count('of which through caller-supplied pointers' + tag, n_wire)
    # address-to-value rule: the numeric value of a caller address must not reach anything the caller observes
    found, st = rules.address_value_sites(mod, FACTS)
    res.count('functions scanned for address-to-value flows' + tag, st['functions'])
    res.count('pointer-to-integer conversions of caller addresses followed' + tag, st['ptrtoint'] + st['pointer slots read as integers'])
    nth = {}
    for (fname, ins, kind, what) in found:
        loc = mod.loc(ins.dbg)
        relf = FC.rel(loc[0]) if loc else '?'
        lib = unit_lib.get(relf, 'custom' if '/custom/' in relf else 'core')
        nth[(lib, kind)] = nth.get((lib, kind), 0) + 1
        res.violation('addr:%s:%s#%d%s' % (lib, kind, nth[(lib, kind)], tag),
                      '%s:%s %s: %s (the result then depends on where the PDU lies in memory)'
                      % (relf, loc[1] if loc else '?', fname, what))
    if not found:
        res.ok()
    if len(sites) < floors['C15_min_access_sites']:
        raise Broken('only %d access sites found in the library IR (floor %d): the rule would pass vacuously'
                     % (len(sites), floors['C15_min_access_sites']))
    for s in sites:
        if s['fn'] == 'Avtp_GetField' and s['kind'] == 'load' and s['origin'] and any(o.startswith('param:pdu') for o in s['origin']):
            res.sample({'site': '%s:%s' % (FC.rel(s['loc'][0]), s['loc'][1]), 'function': s['fn'], 'access': s['kind'] + ' ' + s['width'],
                        'access_align': s['align'], 'guaranteed_by_declared_types': s['guarantee'], 'origin': s['origin']})
    from .. import promises
    promises.report(ctx, res, sorted(ctx.mod.functions), promises.ALIGN_KINDS, tag)
    res.rule = ('every load, store and mem-intrinsic operand of every library function (clang -O0 IR): the alignment the access carries must '
                'not exceed the alignment guaranteed by the declared type of the pointer\'s origin (parameter, pointer loaded from caller '
                'memory, alloca, global), propagated through casts, address arithmetic, phis and local slots; uint8_t* and the header '
                'types promise 1')
    res.explanation = res.rule
    return res


MUST_FLAG = ['fx_pad_from_address', 'fx_hash_of_pointer', 'fx_store_low_bits', 'fx_round_down', 'fx_pun', 'fx_index_from_helper']
MUST_PASS = ['fx_guarded_fast_path', 'fx_pointer_difference', 'fx_round_trip', 'fx_local_address', 'fx_addr']


def positive_control():
    d = build.scratch()
    src = os.path.join(os.path.dirname(os.path.dirname(os.path.dirname(os.path.abspath(__file__)))), 'fixtures', 'c15_positive.c')
    bcs = build.compile_units([src], os.path.join(d, 'pc15'), includes=[])
    ll = os.path.join(d, 'pc15.ll')
    build.link_ll(bcs, ll)
    mod = irparse.parse_module(open(ll).read(), ll)
    facts = rules.analyse_module(mod)
    found, st = rules.address_value_sites(mod, facts)
    hit = set(f[0] for f in found)
    missing = [n for n in MUST_FLAG if n not in hit]
    if missing:
        raise Broken('C15 positive control: the address-to-value rule no longer flags %s in fixtures/c15_positive.c' % missing)
    extra = [n for n in MUST_PASS if n in hit]
    if extra:
        raise Broken('C15 positive control: the address-to-value rule flags the accepted idiom(s) %s (false alarm)' % extra)
    return len(found)


def main(tier, seed):
    from ..ctx import run_all_configs
    res = Result('C15', tier, 'proof', seed)
    res.count('positive-control flows flagged in fixtures/c15_positive.c', positive_control())
    return run_all_configs(run, tier, res)
