"""C05 - a PDU behaves as a record of independent fields under any history.

Histories are unbounded; the verdict is the induction of DESIGN.md 4.5 whose
hypotheses H1..H5 are re-established on every run, plus exact analysis of
(a) every ordered pair of writes per format (commutation, overwrite,
read-after-write, non-interference) and (b) whole talker-style histories
(initialise, write every field through mixed entry points in several orders,
read every field back), all with symbolic values and symbolic prior content."""
import random

from .. import bits as B
from .. import bpa
from .. import fieldchecks as FC
from ..bpa import Ptr, Region
from ..par import pmap
from ..report import Result
from . import c01, c02, c04

CTX = None


def _hyp(t):
    kind, fmt, idx, path = t
    f = CTX.formats[fmt]
    if kind == 'get':
        r = FC.judge_getter(CTX, f, f['fields'][idx], path)
    elif kind == 'set':
        r = FC.judge_setter(CTX, f, f['fields'][idx], path)
    else:
        r = FC.judge_init(CTX, f, idx, **c04.init_kwargs(CTX, f, idx))
    return {'issues': r['issues'], 'changed': r.get('changed_bits'), 'fn': r['fn']}


def setter_for(ctx, f, fld, mode):
    """-> (function name, args builder(value)) choosing an entry point"""
    mod = ctx.mod
    leg = f.get('legacy')
    if mode == 'legacy' and leg:
        fn = ctx.fn(leg['set'])
        W = FC.param_width(mod, fn, 1)
        P = FC.param_width(mod, fn, 2)
        ev = ctx.enum_value(fld['enum']) & B.mask(W)
        return leg['set'], P, (lambda v: [Ptr(FC.PDU, 0), ev, v])
    if mode in ('ded', 'legacy') and fld['setter']:
        fn = ctx.fn(fld['setter'])
        P = FC.param_width(mod, fn, 1)
        return fld['setter'], P, (lambda v: [Ptr(FC.PDU, 0), v])
    fn = ctx.fn(f['set_field'])
    W = FC.param_width(mod, fn, 1)
    P = FC.param_width(mod, fn, 2)
    ev = ctx.enum_value(fld['enum']) & B.mask(W)
    return f['set_field'], P, (lambda v: [Ptr(FC.PDU, 0), ev, v])


def getter_for(ctx, f, fld, mode):
    mod = ctx.mod
    if mode == 'ded' and fld['getter']:
        return fld['getter'], (lambda: [Ptr(FC.PDU, 0)])
    fn = ctx.fn(f['get_field'])
    W = FC.param_width(mod, fn, 1)
    ev = ctx.enum_value(fld['enum']) & B.mask(W)
    return f['get_field'], (lambda: [Ptr(FC.PDU, 0), ev])


def val(name, P, w):
    """symbolic value of P bits named `name`"""
    return bpa.sym_arg(name, P)


def image(region, n):
    return [B.to_bits(region.mem[i], 8) if i in region.mem else tuple(('I', FC.PDU, i, b) for b in range(8))
            for i in range(n)]


def run_script(ctx, script, hl, cap=64):
    ws = bpa.analyse(ctx.mod, script, lambda: ([], {FC.PDU: Region(FC.PDU, 'sym', hl)}), max_worlds=cap,
                     max_steps=2000000, gcache=ctx.gcache)
    oks, err = FC.ok_worlds(ws, cap=cap)
    if err:
        return None, err
    return oks, None


def expected_after(f, hl, chron, init=False):
    """reference header after writing (field, value name, value width) in order"""
    exp = [[('I', FC.PDU, o, b) for b in range(8)] for o in range(hl)]
    if init:
        img = FC.expected_image(f)
        for o in range(min(hl, len(img))):
            exp[o] = list(B.to_bits(img[o], 8))
    for (fld, name, P) in chron:
        wd = fld['width']
        for hb in FC.field_bits(fld):
            j = fld['bit'] + wd - 1 - hb
            if hb // 8 < hl:
                exp[hb // 8][7 - hb % 8] = ('A', name, j) if j < P else 0
    return exp


def check_image(worlds, exp, hl):
    """-> None if every world's header equals exp under its path condition, else (status, text)"""
    for w in worlds:
        with FC.with_world(w.decisions):
            act = image(w.regions[FC.PDU], hl)
            for o in range(hl):
                if tuple(act[o]) == tuple(exp[o]):
                    continue
                st, info = FC.compare_vec(tuple(act[o]), tuple(exp[o]), 8)
                if st == 'eq':
                    continue
                if st == 'unknown':
                    return 'undecided', 'octet %d undetermined' % o
                return 'violation', 'octet %d is %s, the reference encoding is %s; witness: %s' % (
                    o, B.fmt_vec(tuple(act[o]), 8), B.fmt_vec(tuple(exp[o]), 8), FC.fmt_env(info[1]))
    return None


def check_ret(worlds, want, R):
    for w in worlds:
        with FC.with_world(w.decisions):
            st, info = FC.compare_vec(w.ret, want, R)
        if st == 'unknown':
            return 'undecided', 'result bit %d undetermined' % info
        if st == 'differs':
            return 'violation', 'result bit %d is %s, expected %s; witness: %s' % (
                info[0], B.fmt_term(B.to_bits(w.ret, R)[info[0]]), B.fmt_term(want[info[0]]), FC.fmt_env(info[1]))
    return None


def _pairs(t):
    """all ordered pairs (i, j) of one format, one task per first field i"""
    ctx = CTX
    fmt, i = t
    f = ctx.formats[fmt]
    hl = FC.region_len(ctx, f)
    fi = f['fields'][i]
    out = []
    n_ok = 0
    fn_i, P_i, a_i = setter_for(ctx, f, fi, 'ded')
    wi = fi['width']
    for j, fj in enumerate(f['fields']):
        fn_j, P_j, a_j = setter_for(ctx, f, fj, 'id')
        gj, ga_j = getter_for(ctx, f, fj, 'ded')
        R = FC.ret_width(ctx.mod, ctx.fn(gj))
        key = '%s:%s>%s' % (fmt, fi['name'], fj['name'])
        if i == j:
            def s1(m, _):
                m.call(fn_i, a_i(val('v1', P_i, wi)))
                m.call(fn_j, a_j(val('v2', P_j, wi)))
                return m.call(gj, ga_j())
            w1, e1 = run_script(ctx, s1, hl)
            if w1 is None:
                out.append(('undecided', key, '%s then %s: %s' % (fn_i, fn_j, e1)))
                continue
            exp = expected_after(f, hl, [(fi, 'v1', P_i), (fj, 'v2', P_j)])
            bad = check_image(w1, exp, hl)
            if bad:
                out.append((bad[0], key + ':overwrite', '%s: writing %s.%s twice (via %s then %s): %s'
                            % (FC.fnloc(ctx, fn_j), fmt, fi['name'], fn_i, fn_j, bad[1])))
                continue
            if wi <= R:
                want = tuple(('A', 'v2', k) if k < min(wi, P_j) else 0 for k in range(R))
                bad = check_ret(w1, want, R)
                if bad:
                    out.append((bad[0], key + ':read-after-write', '%s: reading %s.%s after writing v1 then v2: %s'
                                % (FC.fnloc(ctx, gj), fmt, fi['name'], bad[1])))
                    continue
            n_ok += 1
            continue
        if fi['width'] == 0 or fj['width'] == 0:
            n_ok += 1
            continue

        def ab(m, _):
            m.call(fn_i, a_i(val('v1', P_i, wi)))
            m.call(fn_j, a_j(val('v2', P_j, fj['width'])))
            return None

        def ba(m, _):
            m.call(fn_j, a_j(val('v2', P_j, fj['width'])))
            m.call(fn_i, a_i(val('v1', P_i, wi)))
            return None

        def a_then_read_b(m, _):
            m.call(fn_i, a_i(val('v1', P_i, wi)))
            return m.call(gj, ga_j())
        wab, e1 = run_script(ctx, ab, hl)
        wba, e2 = run_script(ctx, ba, hl)
        wr1, e3 = run_script(ctx, a_then_read_b, hl)
        if None in (wab, wba, wr1):
            out.append(('undecided', key, '%s / %s: %s' % (fn_i, fn_j, e1 or e2 or e3)))
            continue
        exp = expected_after(f, hl, [(fi, 'v1', P_i), (fj, 'v2', P_j)])
        bad = check_image(wab, exp, hl) or check_image(wba, exp, hl)
        if bad:
            out.append((bad[0], key + ':commute', 'src/avtp: writes to %s.%s (%s) and %s.%s (%s) in either order must give the reference header: %s'
                        % (fmt, fi['name'], fn_i, fmt, fj['name'], fn_j, bad[1])))
            continue
        if fj['width'] <= R:
            want = FC.expected_get(fj, R)
            bad = check_ret(wr1, want, R)
            if bad:
                out.append((bad[0], key + ':interference', '%s: %s.%s read after a write to %s.%s via %s: %s'
                            % (FC.fnloc(ctx, gj), fmt, fj['name'], fmt, fi['name'], fn_i, bad[1])))
                continue
        n_ok += 1
    return out, n_ok


def _history(t):
    """initialise (if the format has an initialiser), write every field once in
    the given order through rotating entry points, read every field back."""
    ctx = CTX
    fmt, order_kind, seed = t
    f = ctx.formats[fmt]
    hl = FC.region_len(ctx, f)
    fields = [x for x in f['fields']]
    idx = list(range(len(fields)))
    if order_kind == 'reverse':
        idx.reverse()
    elif order_kind == 'shuffle':
        random.Random(seed).shuffle(idx)
    modes = ['ded', 'id', 'legacy']
    plan = []
    for n, k in enumerate(idx):
        fld = fields[k]
        fn, P, a = setter_for(ctx, f, fld, modes[(n + seed) % 3])
        plan.append((k, fn, P, a))
    rets = {}

    def script(m, _):
        if f['init']:
            m.call(f['init']['fn'], [Ptr(FC.PDU, 0)])
        for (k, fn, P, a) in plan:
            m.call(fn, a(bpa.sym_arg('v%d' % k, P)))
        # write half of them a second time with a fresh value
        for (k, fn, P, a) in plan[::2]:
            m.call(fn, a(bpa.sym_arg('w%d' % k, P)))
        for k, fld in enumerate(fields):
            g, ga = getter_for(ctx, f, fld, 'id')
            rets[k] = m.call(g, ga())
        return None
    ws, err = run_script(ctx, script, hl, cap=64)
    key = '%s:history:%s:%d' % (fmt, order_kind, seed)
    if ws is None:
        if 'worlds' in (err or ''):
            return [('skipped', key, 'history on %s not analysed exactly: %s (the verdict then rests on H1-H5 and the pair analysis)' % (fmt, err))], 0
        return [('undecided', key, 'history on %s: %s' % (fmt, err))], 0
    if len(ws) != 1:
        return [('skipped', key, 'history on %s forks into %d worlds; not analysed exactly' % (fmt, len(ws)))], 0
    w = ws[0]
    last = {}
    for (k, fn, P, a) in plan:
        last[k] = ('v%d' % k, P)
    for (k, fn, P, a) in plan[::2]:
        last[k] = ('w%d' % k, P)
    chron = [(fields[k], 'v%d' % k, P) for (k, fn, P, a) in plan] + [(fields[k], 'w%d' % k, P) for (k, fn, P, a) in plan[::2]]
    exp = expected_after(f, hl, chron, init=bool(f['init']))
    bad = check_image([w], exp, hl)
    if bad:
        return [(bad[0], key + ':image',
                 'src/avtp (%s): after init + %d writes (%s order, mixed entry points): %s'
                 % (f['source'], len(chron), order_kind, bad[1]))], 0
    for k, fld in enumerate(fields):
        name, P = last[k]
        wd = fld['width']
        want = tuple(('A', name, j) if j < min(wd, P) else 0 for j in range(64))
        if B.to_bits(rets[k], 64) != want:
            return [('violation', key + ':readback', 'src/avtp (%s): after the history field %s reads %s, expected the last value written modulo 2^%d'
                     % (f['source'], fld['name'], B.fmt_vec(rets[k], 64), wd))], 0
    return [('ok', key, {'format': fmt, 'operations': 1 + len(chron) + len(fields), 'order': order_kind,
                         'verdict': 'header = reference encoding of last values; every field reads its last value'})], 1


def run(ctx, tier, res, tag=''):
    global CTX
    CTX = ctx
    ctx.facts()
    # H1-H3, H5(accessor part), and measured changed bits for H4
    ts = [('get',) + t for t in c01.tasks(ctx)] + [('set',) + t for t in c02.tasks(ctx)] + \
         [('init', fmt, fn, None) for (fmt, fn) in c04.init_tasks(ctx)]
    outs = pmap(_hyp, ts)
    changed = {}
    hyp_name = {'C01': 'H3 (readers)', 'C02': 'H1 (writers)', 'C04': 'H2 (initialisers)', 'C16': 'H5 (effects confined to arguments)',
                'C03': 'H1/H3 (extent)'}
    for t, o in zip(ts, outs):
        res.count('hypothesis instances re-established (H1-H3,H5)')
        bad = [i for i in o['issues'] if i[0] in hyp_name and i[0] != 'C03']
        if not bad:
            res.ok()
        for (p, kind, key, text) in bad:
            if kind == 'violation':
                res.violation('hyp:' + key + tag, 'hypothesis %s fails: %s' % (hyp_name[p], text))
            else:
                res.undec(text)
        if t[0] == 'set' and t[3] == 'id' and o['changed'] is not None:
            changed[(t[1], t[2])] = set(o['changed'])
    # H5, structural half: no writable static storage, no foreign callee, no write outside arguments/locals
    from . import c16
    found, counts = c16.scan(ctx.mod)
    res.count('H5 structural sites inspected (globals, call sites, store sites)',
              counts['globals'] + counts['call sites'] + counts['store sites'])
    res.ok(counts['globals'] + counts['call sites'] + counts['store sites'] - len(found))
    for key, text in found:
        res.violation('H5:' + key + tag, 'hypothesis H5 (results depend only on the arguments) fails: ' + text)
    # H4: pairwise disjoint measured footprints
    for f in ctx.spec['formats']:
        fl = f['fields']
        for i in range(len(fl)):
            for j in range(i + 1, len(fl)):
                a, b = changed.get((f['format'], i)), changed.get((f['format'], j))
                if a is None or b is None:
                    continue
                res.count('field pairs checked for disjoint footprints (H4)')
                if a & b:
                    res.violation('H4:%s:%s~%s%s' % (f['format'], fl[i]['name'], fl[j]['name'], tag),
                                  'src/avtp/%s: hypothesis H4 fails: fields %s and %s of %s both change header bits %s'
                                  % (f['source'], fl[i]['name'], fl[j]['name'], f['format'], sorted(a & b)[:8]))
                else:
                    res.ok()
    # (a) ordered pairs
    pts = [(f['format'], i) for f in ctx.spec['formats'] for i in range(len(f['fields']))]
    if tier != 'thorough':
        # quick: every format, every first field, but partner fields all (cost is small)
        pass
    pouts = pmap(_pairs, pts)
    for t, (issues, n_ok) in zip(pts, pouts):
        res.count('ordered write pairs analysed (commute / overwrite / read-after-write / non-interference)', n_ok + len(issues))
        res.ok(n_ok)
        for (st, key, text) in issues:
            if st == 'violation':
                res.violation(key + tag, text)
            else:
                res.undec(text)
    # (b) whole histories
    hts = []
    seed = res.seed
    for f in ctx.spec['formats']:
        hts.append((f['format'], 'forward', 0))
        hts.append((f['format'], 'reverse', 1))
        for s in range(3 if tier != 'thorough' else 20):
            hts.append((f['format'], 'shuffle', seed + s + 2))
    houts = pmap(_history, hts)
    for t, (issues, n_ok) in zip(hts, houts):
        res.count('whole histories analysed')
        for (st, key, info) in issues:
            if st == 'ok':
                res.ok()
                if t[1] == 'shuffle' and t[0] in ('Rvf', 'Can', 'Pcm'):
                    res.sample(info, limit=6)
            elif st == 'violation':
                res.violation(key + tag, info)
            elif st == 'skipped':
                res.count('histories skipped because accessor control depends on data')
                if len([n for n in res.notes if 'not analysed exactly' in n or 'forks into' in n]) < 3:
                    res.notes.append(info)
            else:
                res.undec(info)
    from .. import promises
    promises.report(ctx, res, FC.accessor_functions(ctx, 'all') + [fn for (_, fn) in c04.init_tasks(ctx)], promises.MEMORY_KINDS, tag)
    res.rule = ('H1-H3: set/init/get lemmas for every entry point (as C02/C04/C01); H4: measured write footprints pairwise disjoint; '
                'H5: no access outside arguments and constant tables; then by induction every history yields the reference encoding. '
                'Additionally every ordered pair of writes per format and whole init+write-all+rewrite+read-all histories in forward, '
                'reverse and VERIF_SEED-shuffled orders through mixed entry points are analysed exactly over symbolic values')
    res.assumptions.append('histories longer than the analysed ones follow by the induction argument of DESIGN.md 4.5 from H1-H5')
    return res


def main(tier, seed):
    from ..ctx import run_all_configs
    res = Result('C05', tier, 'proof', seed)
    return run_all_configs(run, tier, res)
