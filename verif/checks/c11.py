"""C11 - invalid arguments are rejected without side effects."""
from .. import fieldchecks as FC
from .. import bits as B
from .. import bpa
from .. import generic
from ..bpa import Ptr, NULL, Region
from ..par import pmap
from ..report import Result
from . import c01, c02, c04

CTX = None
EINVAL_RET = (-22) & 0xffffffff


# ---- feasibility of a world under "f >= lo" --------------------------------

def atom_truth(term, d):
    if isinstance(term, tuple) and term and term[0] == 'C':
        return term, d
    if isinstance(term, tuple) and term and term[0] == 'X':
        ms = term[1]
        if len(ms) == 2 and frozenset() in ms:
            (other,) = [m for m in ms if m]
            if len(other) == 1:
                (v,) = other
                if v[0] == 'C':
                    return v, (not d)
    return None, d


def whole_arg(bitsv, name, w):
    """True if bitsv is arg `name` zero-extended (bits 0..k-1 in order, rest 0) and k = full width w of the arg."""
    k = 0
    for i, b in enumerate(bitsv):
        if b == ('A', name, i):
            k = i + 1
        elif b == 0:
            continue
        else:
            return False
    for i in range(k):
        if bitsv[i] != ('A', name, i):
            return False
    return k == w


def refute(decisions, name, w, lo):
    """Is `decisions` ∧ f >= lo unsatisfiable?  Only whole-argument threshold
    tests are understood; anything else leaves the answer open (False)."""
    hi = (1 << w) - 1
    for term, d in decisions:
        atom, truth = atom_truth(term, d)
        if atom is None:
            continue
        if atom[1] == 'cmp' and atom[2] == 'uge' and isinstance(atom[4], int):
            if not whole_arg(atom[3], name, w):
                continue
            c = atom[4]
            if truth:
                lo = max(lo, c)
            else:
                hi = min(hi, c - 1)
        elif atom[1] == 'any':
            bs = atom[2]
            idx = sorted(b[2] for b in bs if b[0] == 'A' and b[1] == name)
            if len(idx) != len(bs) or not idx:
                continue
            k = idx[0]
            if idx != list(range(k, w)):
                continue
            if truth:
                lo = max(lo, 1 << k)
            else:
                hi = min(hi, (1 << k) - 1)
        if lo > hi:
            return True
    return lo > hi


def candidates(lo, w):
    top = 1 << w
    c = set()
    for base in (lo, 255, 256, 512, 1 << 15, 1 << 16, (1 << 31) - 256, 1 << 31, top - 512, top - 256):
        for j in range(0, max(lo, 1) + 2):
            c.add(base + j)
    c.update([top - 1, top - 2, lo + 1, 2 * lo, 257, 511, 65535, 65537])
    return sorted(x for x in c if lo <= x < top)


def satisfies(decisions, name, w, val):
    env = {('A', name, i): (val >> i) & 1 for i in range(w)}
    for term, d in decisions:
        try:
            if bool(B.eval_term(term, env)) != d:
                return False
        except ValueError:
            return False
    return True


def harmful(w, is_reader, ok_ret=0):
    """What a world does that an invalid call must not do."""
    out = []
    if w.status != 'ok':
        out.append('analysis stopped: %s' % w.reason)
    for name, r in w.regions.items():
        if name.startswith('%'):
            continue
        if r.writes or r.unknown_write:
            out.append('writes %s%s' % (name, sorted(r.writes)[:8]))
        if name == FC.PDU and (r.reads or r.unknown_read):
            out.append('reads PDU octets %s' % sorted(r.reads)[:8])
    same = w.ret == ok_ret
    if is_reader and w.status == 'ok' and not same and isinstance(w.ret, tuple) and 0 < len(w.ret) <= 64:
        # a symbolic result (e.g. a select on the validity test) is the expected constant under this world's path condition?
        with FC.with_world(w.decisions):
            same = FC.compare_vec(w.ret, ok_ret & B.mask(len(w.ret)), len(w.ret))[0] == 'eq'
    if is_reader and w.status == 'ok' and not same:
        out.append('returns %s' % (hex(w.ret) if isinstance(w.ret, int) else 'a value made of PDU bits'))
    return out


def invalid_id(ctx, fname, make_args, argname, W, lo, is_reader, ok_ret=0, what=''):
    """All identifiers >= lo at once.  make_args(fval) -> (args, regions).
    Returns (status, text) with status ok | violation | undecided."""
    mod = ctx.mod
    sym = bpa.sym_arg(argname, W)
    ws = bpa.analyse(mod, fname, lambda: make_args(sym), max_worlds=32, max_steps=200000, gcache=ctx.gcache)
    where = FC.fnloc(ctx, fname)
    nworlds = len(ws)
    for w in ws:
        if w.status == 'infeasible':
            continue
        h = harmful(w, is_reader, ok_ret)
        if not h:
            continue
        if refute(w.decisions, argname, W, lo):
            continue
        for c in candidates(lo, W):
            if not satisfies(w.decisions, argname, W, c):
                continue
            cw = bpa.analyse(mod, fname, lambda: make_args(c), max_worlds=4, max_steps=200000, gcache=ctx.gcache)
            eff = []
            for x in cw:
                if x.status != 'infeasible':
                    eff += harmful(x, is_reader, ok_ret)
            if eff:
                return 'violation', ('%s: %sidentifier %d (valid identifiers are below %d) is not rejected: %s'
                                     % (where, what, c, lo, '; '.join(sorted(set(eff))[:4]))), nworlds
        return 'undecided', ('%s: %sa path with effects (%s) could be neither excluded for identifiers >= %d nor reproduced; '
                             'path condition: %s' % (where, what, '; '.join(h[:3]), lo,
                                                     [(B.fmt_term(t), d) for t, d in w.decisions])), nworlds
    return 'ok', None, nworlds


# ---- tasks ----------------------------------------------------------------

def _task(t):
    ctx = CTX
    kind = t[0]
    if kind == 'null-acc':
        _, fmt, idx, path, gs = t
        f = ctx.formats[fmt]
        return FC.judge_null(ctx, f, f['fields'][idx], path, gs)['issues']
    if kind == 'null-init':
        _, fmt, fname = t
        f = ctx.formats[fmt]
        kw = c04.init_kwargs(ctx, f, fname)
        leg = (f.get('legacy') or {}).get('init') == fname
        return FC.judge_init_null(ctx, f, fname, extra_args=kw.get('extra_args'), legacy=leg)['issues']
    if kind == 'badid':
        _, fmt, gs = t
        f = ctx.formats[fmt]
        fname = f['get_field'] if gs == 'get' else f['set_field']
        fn = ctx.fn(fname)
        W = FC.param_width(ctx.mod, fn, 1)
        lo = ctx.facts()['verif_max_' + fmt]
        hl = FC.region_len(ctx, f)

        def mk(fv):
            regs = {FC.PDU: Region(FC.PDU, 'sym', hl)}
            args = [Ptr(FC.PDU, 0), fv]
            if gs == 'set':
                args.append(bpa.sym_arg('v', FC.param_width(ctx.mod, fn, 2)))
            return args, regs
        st, text, nw = invalid_id(ctx, fname, mk, 'f', W, lo, gs == 'get')
        key = '%s:%s-id:invalid-identifier' % (fmt, gs)
        return [('C11', st, key, text)] if st != 'ok' else []
    if kind == 'badid-generic':
        _, gs = t
        fname = 'Avtp_GetField' if gs == 'get' else 'Avtp_SetField'
        fn = ctx.fn(fname)
        W = FC.param_width(ctx.mod, fn, 3)
        nW = FC.param_width(ctx.mod, fn, 1)
        n = 2

        def mk(fv):
            regs = {FC.PDU: Region(FC.PDU, 'sym', 16), generic.TBL: generic._table(ctx.mod, 1, 4, 9)}
            args = [Ptr(generic.TBL, 0), n & B.mask(nW), Ptr(FC.PDU, 0), fv]
            if gs == 'set':
                args.append(bpa.sym_arg('v', FC.param_width(ctx.mod, fn, 4)))
            return args, regs
        st, text, nw = invalid_id(ctx, fname, mk, 'f', W, n, gs == 'get', what='(table of %d rows) ' % n)
        return [('C11', st, 'generic:%s:invalid-identifier' % gs, text)] if st != 'ok' else []
    if kind == 'null-generic':
        _, gs, which = t
        fname = 'Avtp_GetField' if gs == 'get' else 'Avtp_SetField'
        fn = ctx.fn(fname)

        def mk():
            regs = {FC.PDU: Region(FC.PDU, 'sym', 16), generic.TBL: generic._table(ctx.mod, 1, 4, 9)}
            args = [NULL if which == 'table' else Ptr(generic.TBL, 0), 2,
                    NULL if which == 'pdu' else Ptr(FC.PDU, 0), 1]
            if gs == 'set':
                args.append(bpa.sym_arg('v', FC.param_width(ctx.mod, fn, 4)))
            return args, regs
        ws = bpa.analyse(ctx.mod, fname, mk, max_worlds=4, gcache=ctx.gcache)
        out = []
        for w in ws:
            if w.status == 'infeasible':
                continue
            h = harmful(w, gs == 'get')
            if h:
                nd = [n_ for n_ in w.notes if n_[0] == 'null-deref']
                out.append(('C11', 'violation' if (w.status == 'ok' or nd) else 'undecided',
                            'generic:%s:null-%s' % (gs, which),
                            '%s: with a null %s: %s' % (FC.fnloc(ctx, fname), which, '; '.join(h))))
        return out
    if kind == 'legacy':
        return legacy_task(ctx, t)
    raise ValueError(kind)


def legacy_task(ctx, t):
    _, fmt, gs, case = t
    f = ctx.formats[fmt]
    leg = f['legacy']
    fname = leg[gs]
    fn = ctx.fn(fname)
    mod = ctx.mod
    hl = FC.region_len(ctx, f)
    W = FC.param_width(mod, fn, 1)
    lo = ctx.facts()['verif_max_' + fmt]
    where = FC.fnloc(ctx, fname)
    key = '%s:legacy-%s:%s' % (fmt, gs, case)
    VAL = 'val'

    def regs():
        r = {FC.PDU: Region(FC.PDU, 'sym', hl)}
        if gs == 'get':
            vb = mod.sizeof(fn.params[2][0][1])
            r[VAL] = Region(VAL, 'sym', vb)
        return r

    def args(pdu, fv, valp):
        a = [pdu, fv]
        if gs == 'get':
            a.append(valp)
        else:
            a.append(bpa.sym_arg('v', FC.param_width(mod, fn, 2)))
        return a
    out = []
    if case in ('null-pdu', 'null-val'):
        pdu = NULL if case == 'null-pdu' else Ptr(FC.PDU, 0)
        valp = NULL if case == 'null-val' else Ptr(VAL, 0)
        for fld in f['fields']:
            ev = ctx.enum_value(fld['enum']) & B.mask(W)
            ws = bpa.analyse(mod, fname, lambda: (args(pdu, ev, valp), regs()), max_worlds=4, gcache=ctx.gcache)
            for w in ws:
                if w.status == 'infeasible':
                    continue
                h = harmful(w, True, EINVAL_RET)
                if h:
                    nd = [n_ for n_ in w.notes if n_[0] == 'null-deref']
                    out.append(('C11', 'violation' if (w.status == 'ok' or nd) else 'undecided', key,
                                '%s: %s with field %s: expected -EINVAL and no effect, but: %s'
                                % (where, case, fld['enum'], '; '.join(h))))
                    return out
        return out
    if case == 'bad-id':
        def mk(fv):
            return args(Ptr(FC.PDU, 0), fv, Ptr(VAL, 0)), regs()
        st, text, nw = invalid_id(ctx, fname, mk, 'f', W, lo, True, ok_ret=EINVAL_RET)
        if st != 'ok':
            out.append(('C11', st, key, text + ' (expected: return -EINVAL, nothing written)'))
        return out
    if case == 'valid':
        for fld in f['fields']:
            ev = ctx.enum_value(fld['enum']) & B.mask(W)
            ws = bpa.analyse(mod, fname, lambda: (args(Ptr(FC.PDU, 0), ev, Ptr(VAL, 0)), regs()),
                             max_worlds=16, gcache=ctx.gcache)
            oks, err = FC.ok_worlds(ws)
            if err:
                out.append(('C11', 'undecided', key, '%s (valid arguments, %s): %s' % (where, fld['enum'], err)))
                return out
            badr = [w.ret for w in oks if w.ret != 0]
            if badr:
                out.append(('C11', 'violation', key, '%s: valid arguments (field %s) return %r instead of 0'
                            % (where, fld['enum'], badr[0])))
                return out
        return out
    raise ValueError(case)


def tasks(ctx):
    ts = []
    for (fmt, i, path) in c01.tasks(ctx):
        ts.append(('null-acc', fmt, i, path, 'get'))
    for (fmt, i, path) in c02.tasks(ctx):
        ts.append(('null-acc', fmt, i, path, 'set'))
    for (fmt, fname) in c04.init_tasks(ctx):
        ts.append(('null-init', fmt, fname))
    for f in ctx.spec['formats']:
        ts.append(('badid', f['format'], 'get'))
        ts.append(('badid', f['format'], 'set'))
        if f.get('legacy'):
            for gs in ('get', 'set'):
                for case in ('null-pdu', 'bad-id', 'valid') + (('null-val',) if gs == 'get' else ()):
                    ts.append(('legacy', f['format'], gs, case))
    for gs in ('get', 'set'):
        ts.append(('badid-generic', gs))
        ts.append(('null-generic', gs, 'pdu'))
        ts.append(('null-generic', gs, 'table'))
    return ts


def run(ctx, tier, res, tag=''):
    global CTX
    CTX = ctx
    ctx.facts()
    ts = tasks(ctx)
    outs = pmap(_task, ts)
    for t, issues in zip(ts, outs):
        res.count({'null-acc': 'accessors analysed with a null PDU', 'null-init': 'initialisers analysed with a null PDU',
                   'badid': 'by-identifier entry points analysed for all identifiers >= MAX',
                   'badid-generic': 'generic walkers analysed for all identifiers >= numFields',
                   'null-generic': 'generic walkers analysed with null arguments',
                   'legacy': 'legacy entry point cases analysed'}[t[0]] + tag)
        mine = [i for i in issues if i[0] == 'C11']
        if not mine:
            res.ok()
            if t[0] in ('badid', 'legacy') and len(res.samples) < 8 and t[1] in ('Can', 'Crf'):
                res.sample({'case': list(t), 'verdict': 'no world consistent with the invalid argument reads the PDU, '
                            'writes memory or returns a value other than the mandated one'})
        seen = set()
        for (_, kind, key, text) in mine:
            if key in seen:
                continue
            seen.add(key)
            if kind == 'violation':
                res.violation(key + tag, text)
            else:
                res.undec(text)
    from .. import promises
    promises.report(ctx, res, sorted(ctx.mod.functions), promises.NULL_KINDS, tag)
    res.rule = ('null world of every accessor/initialiser: empty read and write sets, return 0; identifier worlds: the '
                'identifier stays symbolic, every world with an effect must be inconsistent with identifier >= MAX '
                '(interval refutation of its path condition) - otherwise a concrete identifier satisfying the path condition '
                'is exhibited; legacy entry points: -EINVAL and no store for null PDU / null result / bad identifier, 0 otherwise')
    return res


def main(tier, seed):
    from ..ctx import run_all_configs
    res = Result('C11', tier, 'proof', seed)
    return run_all_configs(run, tier, res)
