"""Obligations get(F), set(F), init of DESIGN.md section 3, evaluated with the
bit-provenance engine for every format / field / access path.

Every function returns plain records (dicts) so that the per-property checks
(C01, C02, C03, C04, C05, C11, C14, C17) can judge the same measurements from
their own angle."""
import random

from . import bits as B
from . import bpa
from .bpa import Ptr, NULL, Region

PDU = 'pdu'


def hbit(region, hb):
    """header bit hb (0 = msb of octet 0) as an entry-memory term"""
    return ('I', region, hb // 8, 7 - hb % 8)


def field_bits(fld):
    return range(fld['bit'], fld['bit'] + fld['width'])


def expected_get(fld, R, region=PDU):
    w = fld['width']
    out = []
    for j in range(R):
        if j < w:
            out.append(hbit(region, fld['bit'] + w - 1 - j))
        else:
            out.append(0)
    return tuple(out)


def ret_width(mod, fn):
    return bpa.type_bits(mod, fn.ret)


def param_width(mod, fn, idx):
    return bpa.type_bits(mod, fn.params[idx][0])


# ---- witness search over closed-form terms ---------------------------------

# path condition of the world currently being judged (set by with_world)
PC = B.PathCond()


class with_world(object):
    """with FC.with_world(decisions): ... - judge one world under its path condition"""

    def __init__(self, decisions):
        self.pc = B.PathCond(decisions)

    def __enter__(self):
        global PC
        self.old = PC
        PC = self.pc
        return self.pc

    def __exit__(self, *a):
        global PC
        PC = self.old


def find_witness(t_actual, t_expected, seed=0):
    """An assignment of the variables, consistent with the current path
    condition, under which the two T-free terms differ - or None.  This
    evaluates terms (closed forms), not program code."""
    pc = PC
    a2, e2 = pc.apply(t_actual), pc.apply(t_expected)
    if a2 == e2:
        return None
    vs = set()
    B.term_vars(a2, vs)
    B.term_vars(e2, vs)
    pc.vars(vs)
    base = sorted((v for v in vs if v[0] != 'C'), key=repr)
    cands = [{}, {v: 1 for v in base}]
    for v in base:
        cands.append({v: 1})
    for v in base:
        e = {x: 1 for x in base}
        e[v] = 0
        cands.append(e)
    rnd = random.Random(seed)
    for _ in range(96):
        cands.append({v: rnd.getrandbits(1) for v in base})
    for env in cands:
        env = pc.complete(env)
        try:
            if not pc.holds(env):
                continue
            if B.eval_term(t_actual, env) != B.eval_term(t_expected, env):
                return env
        except ValueError:
            return None
    return None


def ok_worlds(ws, cap=32):
    """-> (list of feasible ok worlds, error text or None)"""
    if not ws:
        return [], 'no world'
    if len(ws) > cap:
        return [], 'control depends on data: more than %d worlds' % cap
    out = []
    for w in ws:
        dec = w.decisions if hasattr(w, 'decisions') else w['decisions']
        st0 = w.status if hasattr(w, 'status') else w['status']
        if st0 == 'infeasible' or B.PathCond(dec).infeasible:
            continue
        st = w.status if hasattr(w, 'status') else w['status']
        if st != 'ok':
            return [], str(w.reason if hasattr(w, 'reason') else w['reason'])
        out.append(w)
    if not out:
        return [], 'every world is infeasible'
    return out, None


def definite_fault(ws):
    """an out-of-extent access (or undefined behaviour) recorded on a feasible path of a world that the engine could
    not finish (step budget, unknown branch): the access happened before the engine gave up, so it is a fact about the
    code even though the rest of the run is undecided.  -> text or None"""
    for w in ws:
        if w.status in ('ok', 'infeasible') or B.PathCond(w.decisions).infeasible:
            continue
        if w.oob:
            return '%s (the run was then abandoned: %s)' % (fmt_oob(w.oob[0]), w.reason)
        ub = ub_note({'notes': w.notes})
        if ub:
            return 'undefined behaviour: %s (the run was then abandoned: %s)' % (ub, w.reason)
    return None


def world_pairs(wa, wb):
    """feasible combinations of the worlds of two runs over the same symbolic inputs"""
    for a in wa:
        for b in wb:
            dec = list(a.decisions) + list(b.decisions)
            if B.PathCond(dec).infeasible:
                continue
            yield a, b, dec


def same_under_pc(a, e):
    if a == e:
        return True
    if PC.trivial():
        return False
    return PC.apply(a) == PC.apply(e)


def fmt_env(env):
    ones = sorted(B.fmt_term(v) for v, x in env.items() if x)
    if not ones:
        return 'all variables 0'
    if len(ones) > 12:
        return 'set: ' + ', '.join(ones[:12]) + ', ... (%d more)' % (len(ones) - 12)
    return 'set: ' + ', '.join(ones)


def ub_note(rec):
    """a shift whose (concrete) amount is not smaller than the operand width was executed in this world: undefined
    behaviour in C, poison in the IR - the value the hardware produces is not the one the arithmetic intends"""
    for n in rec.get('notes', ()):
        if n[0] == 'shift-out-of-range':
            l = n[4]
            return '%s by %d of a %d-bit operand at %s:%s' % (n[1], n[2], n[3], rel(l[0]) if l else '?', l[1] if l else '?')
        if n[0] == 'use-after-scope':
            l = n[3]
            return ('%s of the local object %s at %s:%s after the end of its scope (its lifetime is over: an optimising '
                    'compiler reuses the slot or drops the stores that filled it)'
                    % ('read' if n[2] == 'r' else 'write', n[1].split('#')[0], rel(l[0]) if l else '?', l[1] if l else '?'))
    return None


def compare_vec(actual, expected, w):
    """-> (status, info): 'eq' | 'differs' (index, witness) | 'unknown' (index)."""
    a = B.to_bits(actual, w)
    e = B.to_bits(expected, w)
    unknown = None
    for i in range(w):
        if a[i] == e[i]:
            continue
        if not B.is_unknown(a[i]) and same_under_pc(a[i], e[i]):
            continue
        if B.is_unknown(a[i]):
            if unknown is None:
                unknown = i
            continue
        wit = find_witness(a[i], e[i])
        if wit is not None:
            return 'differs', (i, wit)
        if unknown is None:
            unknown = i
    if unknown is not None:
        return 'unknown', unknown
    return 'eq', None


# ---- running accessors ---------------------------------------------------

def _pdu_regions(hl):
    return {PDU: Region(PDU, 'sym', hl)}


def world_summary(ctx, w, hl):
    """Plain record of one world."""
    mod = ctx.mod
    rec = {'status': w.status, 'reason': w.reason, 'ret': w.ret, 'steps': w.steps,
           'decisions': list(w.decisions), 'oob': list(w.oob), 'notes': list(w.notes),
           'events': [(e[0], e[2]) for e in w.events]}
    reg = {}
    for name, r in w.regions.items():
        if name.startswith('%'):
            continue
        if not (r.reads or r.writes or r.unknown_read or r.unknown_write):
            continue
        reg[name] = {'reads': sorted(r.reads), 'writes': sorted(r.writes),
                     'unknown_read': r.unknown_read, 'unknown_write': r.unknown_write,
                     'mem': {o: r.mem[o] for o in r.writes if o in r.mem},
                     'kind': r.kind, 'const': not r.writable}
    rec['regions'] = reg
    return rec


def run_call(ctx, fname, mkargs, hl, extra_regions=None, max_worlds=16, max_steps=400000):
    def make():
        regs = _pdu_regions(hl)
        if extra_regions:
            for k, v in extra_regions().items():
                regs[k] = v
        return mkargs(), regs
    ws = bpa.analyse(ctx.mod, fname, make, max_worlds=max_worlds, max_steps=max_steps, gcache=ctx.gcache)
    return [world_summary(ctx, w, hl) for w in ws]


def region_len(ctx, f):
    """Extent of the PDU region: what a caller allocating the published
    header type gets (sizeof as folded by the compiler)."""
    v = ctx.facts().get('verif_sizeof_' + f['format'])
    return v if v else f['header_len']


def getter_call(ctx, f, fld, path, null=False):
    """-> (function name, list of world records)"""
    hl = region_len(ctx, f)
    pdu = NULL if null else Ptr(PDU, 0)
    if path == 'id':
        fname = f['get_field']
        ev = ctx.enum_value(fld['enum'])
        fn = ctx.fn(fname)
        wid = param_width(ctx.mod, fn, 1)
        args = lambda: [pdu, ev & B.mask(wid)]
    else:
        fname = fld['getter']
        ctx.fn(fname)
        args = lambda: [pdu]
    return fname, run_call(ctx, fname, args, hl)


def setter_call(ctx, f, fld, path, null=False):
    hl = region_len(ctx, f)
    pdu = NULL if null else Ptr(PDU, 0)
    if path == 'id':
        fname = f['set_field']
        fn = ctx.fn(fname)
        ev = ctx.enum_value(fld['enum'])
        wid = param_width(ctx.mod, fn, 1)
        P = param_width(ctx.mod, fn, 2)
        args = lambda: [pdu, ev & B.mask(wid), bpa.sym_arg('v', P)]
    else:
        fname = fld['setter']
        fn = ctx.fn(fname)
        P = param_width(ctx.mod, fn, 1)
        args = lambda: [pdu, bpa.sym_arg('v', P)]
    return fname, P, run_call(ctx, fname, args, hl)


def foreign_effects(rec):
    """Accesses to anything but the PDU region and constant tables:
    [(region, kind)]"""
    out = []
    for name, r in rec['regions'].items():
        if name == PDU:
            continue
        if r['const'] and not r['writes'] and not r['unknown_write']:
            continue
        if r['reads'] or r['unknown_read']:
            out.append((name, 'read'))
        if r['writes'] or r['unknown_write']:
            out.append((name, 'write'))
    return out


def pdu_rec(rec):
    return rec['regions'].get(PDU, {'reads': [], 'writes': [], 'unknown_read': False,
                                    'unknown_write': False, 'mem': {}})


def fnloc(ctx, fname):
    l = ctx.mod.fn_loc(fname)
    if not l:
        return fname
    return '%s:%s %s' % (rel(l[0]), l[1], fname)


def rel(path):
    from . import build
    root = build.REPO.rstrip('/') + '/'
    if path and path.startswith(root):
        return path[len(root):]
    return path or '?'


def fmt_oob(o):
    region, off, n, kind, loc = o
    return '%s of %s[%d..%d] at %s' % ('read' if kind == 'r' else 'write', region, off, off + n - 1,
                                        bpa.fmt_loc((rel(loc[0]), loc[1], loc[2])) if loc else '?')


def pos_name(hb):
    return 'octet %d bit %d (header bit %d)' % (hb // 8, 7 - hb % 8, hb)


# ---- judgements ---------------------------------------------------------

def judge_getter(ctx, f, fld, path):
    """Analyse one read path of one field in the non-null world.
    Returns dict(fn, R, issues=[(prop, kind, key, text)], facts={...})
    kind in 'violation' | 'undecided'."""
    fname, recs = getter_call(ctx, f, fld, path)
    fn = ctx.mod.functions[fname]
    R = ret_width(ctx.mod, fn)
    fmt = f['format']
    base = '%s:%s:%s' % (fmt, fld['name'], 'get-' + path)
    issues = []
    where = fnloc(ctx, fname)
    out = {'fn': fname, 'R': R, 'issues': issues, 'path': path, 'format': fmt, 'field': fld['name'],
           'reads': [], 'ret': None, 'steps': sum(r['steps'] for r in recs), 'worlds': len(recs)}
    if not recs or len(recs) > 8:
        issues.append(('C01', 'undecided', base, '%s: analysis produced %d worlds' % (where, len(recs))))
        return out
    for rec in recs:
        if rec['status'] == 'infeasible':
            continue
        with with_world(rec['decisions']):
            _judge_getter_world(ctx, f, fld, fmt, base, where, R, rec, issues, out)
    return out


def _judge_getter_world(ctx, f, fld, fmt, base, where, R, rec, issues, out):
    if rec['status'] != 'ok':
        ub = ub_note(rec)
        if ub:
            issues.append(('C01', 'violation', base + ':undefined', '%s: the result depends on undefined behaviour: %s (then: %s)'
                           % (where, ub, rec['reason'])))
        elif foreign_effects(rec):
            issues.append(('C01', 'violation', base + ':foreign-state',
                           '%s: touches memory other than its argument and constant tables (%s) - the result depends on state '
                           'that is not the buffer (analysis then stopped: %s)'
                           % (where, ', '.join('%s of %s' % (k, n) for n, k in foreign_effects(rec)), rec['reason'])))
        else:
            issues.append(('C01', 'undecided', base, '%s: %s' % (where, rec['reason'])))
        return out
    w = fld['width']
    p = pdu_rec(rec)
    out['reads'] = sorted(set(out['reads']) | set(p['reads']))
    out['ret'] = rec['ret']
    if R is None:
        issues.append(('C01', 'undecided', base, '%s: return type is not an integer' % where))
        return out
    if R < w:
        issues.append(('C01', 'violation', base + ':return-narrow',
                       '%s: return type has %d bits but field %s.%s has %d: a buffer with %s set reads back truncated'
                       % (where, R, fmt, fld['name'], w, pos_name(fld['bit'] + w - 1 - R))))
    exp = expected_get(fld, R)
    st, info = compare_vec(rec['ret'], exp, R)
    if st == 'differs':
        i, wit = info
        a = B.to_bits(rec['ret'], R)[i]
        issues.append(('C01', 'violation', base + ':value',
                       '%s: result bit %d of field %s.%s is %s, the wire format says %s; witness buffer: %s'
                       % (where, i, fmt, fld['name'], B.fmt_term(a), B.fmt_term(exp[i]), fmt_env(wit))))
    elif st == 'unknown':
        ub = ub_note(rec)
        if ub:
            issues.append(('C01', 'violation', base + ':undefined-shift',
                           '%s: result bit %d of field %s.%s is produced by undefined behaviour on this target: %s'
                           % (where, info, fmt, fld['name'], ub)))
        else:
            issues.append(('C01', 'undecided', base, '%s: result bit %d could not be determined' % (where, info)))
    if p['writes'] or p['unknown_write']:
        issues.append(('C01', 'violation', base + ':writes',
                       '%s: reading field %s.%s writes PDU octets %s' % (where, fmt, fld['name'], p['writes'])))
    fe = foreign_effects(rec)
    if fe:
        issues.append(('C16', 'violation', base + ':foreign',
                       '%s: touches memory other than its argument and constant tables: %s' % (where, fe)))
    for o in rec['oob']:
        if o[0] == PDU:
            issues.append(('C03', 'violation', base + ':extent',
                           '%s: field %s.%s: %s, outside the published %d-octet header type'
                           % (where, fmt, fld['name'], fmt_oob(o), region_len(ctx, f))))
        else:
            issues.append(('C03', 'violation', base + ':extent-other',
                           '%s: field %s.%s: %s' % (where, fmt, fld['name'], fmt_oob(o))))
    return out


def expected_set_mem(fld, P, hl, touched):
    """expected content of every octet in `touched` ∪ field octets after set"""
    w = fld['width']
    exp = {}
    octs = set(touched) | set(hb // 8 for hb in field_bits(fld))
    for o in octs:
        exp[o] = [('I', PDU, o, b) for b in range(8)]
    for hb in field_bits(fld):
        j = fld['bit'] + w - 1 - hb       # value bit stored here
        exp[hb // 8][7 - hb % 8] = ('A', 'v', j) if j < P else 0
    return exp


def judge_setter(ctx, f, fld, path):
    fname, P, recs = setter_call(ctx, f, fld, path)
    fmt = f['format']
    base = '%s:%s:%s' % (fmt, fld['name'], 'set-' + path)
    issues = []
    where = fnloc(ctx, fname)
    out = {'fn': fname, 'P': P, 'issues': issues, 'path': path, 'format': fmt, 'field': fld['name'],
           'writes': [], 'changed_bits': None, 'steps': sum(r['steps'] for r in recs)}
    if not recs or len(recs) > 8:
        issues.append(('C02', 'undecided', base, '%s: analysis produced %d worlds' % (where, len(recs))))
        return out
    if P < fld['width']:
        issues.append(('C02', 'violation', base + ':param-narrow',
                       '%s: value parameter has %d bits but field %s.%s has %d: value 2^%d cannot be stored'
                       % (where, P, fmt, fld['name'], fld['width'], P)))
    if P == 1:
        # an i1 parameter is C's _Bool: the caller converts v to (v != 0), not to v mod 2 - Set(2) stores 1
        issues.append(('C02', 'violation', base + ':param-bool',
                       '%s: value parameter has type _Bool, so the caller converts the value to (v != 0) before the call: '
                       'writing 2 to the %d-bit field %s.%s stores 1, not 2 mod 2^%d = 0'
                       % (where, fld['width'], fmt, fld['name'], fld['width'])))
    for rec in recs:
        if rec['status'] == 'infeasible':
            continue
        with with_world(rec['decisions']):
            _judge_setter_world(ctx, f, fld, fmt, base, where, P, rec, issues, out)
    return out


def _judge_setter_world(ctx, f, fld, fmt, base, where, P, rec, issues, out):
    if rec['status'] != 'ok':
        ub = ub_note(rec)
        if ub:
            issues.append(('C02', 'violation', base + ':undefined', '%s: the write depends on undefined behaviour: %s (then: %s)'
                           % (where, ub, rec['reason'])))
        elif foreign_effects(rec):
            issues.append(('C02', 'violation', base + ':foreign-state',
                           '%s: touches memory other than its argument and constant tables (%s) - the write depends on state '
                           'that is not the buffer (analysis then stopped: %s)'
                           % (where, ', '.join('%s of %s' % (k, n) for n, k in foreign_effects(rec)), rec['reason'])))
        else:
            issues.append(('C02', 'undecided', base, '%s: %s' % (where, rec['reason'])))
        return out
    w = fld['width']
    p = pdu_rec(rec)
    out['writes'] = sorted(set(out['writes']) | set(p['writes']))
    exp = expected_set_mem(fld, P, f['header_len'], p['writes'])
    changed = []
    bad = None
    unk = None
    for o in sorted(exp):
        act = p['mem'].get(o)
        if act is None:
            actb = tuple(('I', PDU, o, b) for b in range(8))
        else:
            actb = B.to_bits(act, 8) if not (isinstance(act, tuple) and act and act[0] == 'P') else (B.TOP,) * 8
        for b in range(8):
            a = actb[b]
            e = exp[o][b]
            if a != ('I', PDU, o, b):
                changed.append(o * 8 + (7 - b))
            if a == e:
                continue
            if B.is_unknown(a):
                if unk is None:
                    unk = (o, b)
                continue
            if same_under_pc(a, e):
                continue
            wit = find_witness(a, e)
            if wit is None:
                if unk is None:
                    unk = (o, b)
                continue
            if bad is None:
                bad = (o, b, a, e, wit)
    # in a world that skipped the store because the field already held the value, the footprint is
    # the field itself
    if PC.trivial() or out['changed_bits'] is None:
        out['changed_bits'] = sorted(set(changed) | set(out['changed_bits'] or []))
    else:
        out['changed_bits'] = sorted(set(changed) | set(out['changed_bits']))
    if bad:
        o, b, a, e, wit = bad
        inside = (o * 8 + 7 - b) in field_bits(fld)
        issues.append(('C02', 'violation', base + (':value' if inside else ':frame'),
                       '%s: after writing %s.%s, octet %d bit %d holds %s, expected %s (%s); witness: %s'
                       % (where, fmt, fld['name'], o, b, B.fmt_term(a), B.fmt_term(e),
                          'inside the field' if inside else 'outside the field: must keep its previous content',
                          fmt_env(wit))))
    elif unk:
        ub = ub_note(rec)
        if ub:
            issues.append(('C02', 'violation', base + ':undefined-shift',
                           '%s: after writing %s.%s, octet %d bit %d is produced by undefined behaviour on this target: %s'
                           % (where, fmt, fld['name'], unk[0], unk[1], ub)))
        else:
            issues.append(('C02', 'undecided', base, '%s: octet %d bit %d could not be determined' % ((where,) + unk)))
    fe = foreign_effects(rec)
    if fe:
        issues.append(('C16', 'violation', base + ':foreign',
                       '%s: touches memory other than its argument and constant tables: %s' % (where, fe)))
    for o in rec['oob']:
        if o[0] == PDU:
            issues.append(('C03', 'violation', base + ':extent',
                           '%s: field %s.%s: %s, outside the published %d-octet header type'
                           % (where, fmt, fld['name'], fmt_oob(o), region_len(ctx, f))))
        else:
            issues.append(('C03', 'violation', base + ':extent-other',
                           '%s: field %s.%s: %s' % (where, fmt, fld['name'], fmt_oob(o))))
    return out


def judge_null(ctx, f, fld, path, kind):
    """world pdu == NULL of a getter / setter (C11)."""
    if kind == 'get':
        fname, recs = getter_call(ctx, f, fld, path, null=True)
    else:
        fname, _, recs = setter_call(ctx, f, fld, path, null=True)
    fmt = f['format']
    base = '%s:%s:%s-%s:null' % (fmt, fld['name'], kind, path)
    where = fnloc(ctx, fname)
    issues = []
    out = {'fn': fname, 'issues': issues, 'steps': sum(r['steps'] for r in recs)}
    for rec in recs:
        if rec['status'] == 'infeasible':
            continue
        if rec['status'] != 'ok':
            null_deref = any(n[0] == 'null-deref' for n in rec['notes'])
            if null_deref:
                n = [n for n in rec['notes'] if n[0] == 'null-deref'][0]
                issues.append(('C11', 'violation', base,
                               '%s: with a null PDU the function performs a %s through the null pointer at %s'
                               % (where, n[1], bpa.fmt_loc((rel(n[2][0]), n[2][1], n[2][2])) if n[2] else '?')))
            else:
                issues.append(('C11', 'undecided', base, '%s (null PDU): %s' % (where, rec['reason'])))
            continue
        if kind == 'get' and rec['ret'] != 0:
            issues.append(('C11', 'violation', base + ':ret',
                           '%s: with a null PDU the reader returns %s instead of 0'
                           % (where, B.fmt_vec(rec['ret'], 64) if not isinstance(rec['ret'], int) else hex(rec['ret']))))
        bad = [(n, r) for n, r in rec['regions'].items() if r['writes'] or r['unknown_write']]
        if bad:
            issues.append(('C11', 'violation', base + ':writes',
                           '%s: with a null PDU memory is written: %s' % (where, [(n, r['writes']) for n, r in bad])))
    return out


# ---- initialisers ------------------------------------------------------------

def expected_image(f):
    hl = f['header_len']
    img = [0] * hl
    consts = f['init']['constants']
    byname = {x['name']: x for x in f['fields']}
    for name, val in consts.items():
        fld = byname[name]
        w = fld['width']
        for hb in field_bits(fld):
            j = fld['bit'] + w - 1 - hb
            if (val >> j) & 1:
                img[hb // 8] |= 1 << (7 - hb % 8)
    return img


def judge_init(ctx, f, fname, extra_args=None, image=None, prop='C04', legacy=False):
    """Initialiser on a symbolic header followed by a symbolic guard zone."""
    hl = f['header_len']
    fmt = f['format']
    fn = ctx.fn(fname)
    base = '%s:init:%s' % (fmt, fname)
    where = fnloc(ctx, fname)
    issues = []
    out = {'fn': fname, 'issues': issues, 'format': fmt}
    args = lambda: [Ptr(PDU, 0)] + (extra_args() if extra_args else [])
    recs = run_call(ctx, fname, args, region_len(ctx, f))
    out['steps'] = sum(r['steps'] for r in recs)
    if not recs or len(recs) > 8:
        issues.append((prop, 'undecided', base, '%s: analysis produced %d worlds' % (where, len(recs))))
        return out
    img = image if image is not None else expected_image(f)
    for rec in recs:
        if rec['status'] == 'infeasible':
            continue
        with with_world(rec['decisions']):
            _judge_init_world(ctx, f, fmt, base, where, prop, hl, img, rec, issues, out)
    return out


def _judge_init_world(ctx, f, fmt, base, where, prop, hl, img, rec, issues, out):
    if rec['status'] != 'ok':
        ub = ub_note(rec)
        if ub:
            issues.append((prop, 'violation', base + ':undefined', '%s: the result depends on undefined behaviour: %s (then: %s)'
                           % (where, ub, rec['reason'])))
        elif foreign_effects(rec):
            issues.append((prop, 'violation', base + ':foreign-state',
                           '%s: touches memory other than its argument and constant tables (%s) (analysis then stopped: %s)'
                           % (where, ', '.join('%s of %s' % (k, n) for n, k in foreign_effects(rec)), rec['reason'])))
        else:
            issues.append((prop, 'undecided', base, '%s: %s' % (where, rec['reason'])))
        return out
    p = pdu_rec(rec)
    out['image'] = []
    for o in range(hl):
        act = p['mem'].get(o)
        e = img[o]
        if act is None:
            issues.append((prop, 'violation', base + ':unset',
                           '%s: header octet %d is not written by the initialiser: it keeps whatever the buffer held'
                           % (where, o)))
            break
        out['image'].append(act)
        if isinstance(e, int) and isinstance(act, int):
            if act != e:
                issues.append((prop, 'violation', base + ':constant',
                               '%s: header octet %d is 0x%02x after initialisation, the format mandates 0x%02x'
                               % (where, o, act, e)))
                break
            continue
        st, info = compare_vec(act, e, 8)
        if st == 'differs':
            issues.append((prop, 'violation', base + ':constant',
                           '%s: header octet %d is %s after initialisation, expected %s; witness: %s'
                           % (where, o, B.fmt_vec(act, 8), B.fmt_vec(e, 8), fmt_env(info[1]))))
            break
        if st == 'unknown':
            issues.append((prop, 'undecided', base, '%s: header octet %d undetermined' % (where, o)))
            break
    beyond = [o for o in p['writes'] if o >= hl or o < 0]
    if beyond:
        issues.append((prop, 'violation', base + ':trailing',
                       '%s: initialiser writes octets %s beyond the %d-octet header' % (where, beyond, hl)))
    for o in rec['oob']:
        issues.append(('C03', 'violation', base + ':extent', '%s: %s, outside the published %d-octet header type'
                       % (where, fmt_oob(o), region_len(ctx, f))))
    fe = foreign_effects(rec)
    if fe:
        issues.append(('C16', 'violation', base + ':foreign',
                       '%s: touches memory other than its argument and constant tables: %s' % (where, fe)))
    out['ret'] = rec['ret']
    return out


def judge_init_null(ctx, f, fname, extra_args=None, legacy=False):
    fmt = f['format']
    base = '%s:init:%s:null' % (fmt, fname)
    where = fnloc(ctx, fname)
    issues = []
    out = {'fn': fname, 'issues': issues}
    args = lambda: [NULL] + (extra_args() if extra_args else [])
    recs = run_call(ctx, fname, args, f['header_len'])
    out['steps'] = sum(r['steps'] for r in recs)
    for rec in recs:
        if rec['status'] == 'infeasible':
            continue
        if rec['status'] != 'ok':
            nd = [n for n in rec['notes'] if n[0] == 'null-deref']
            if nd:
                n = nd[0]
                issues.append(('C11', 'violation', base,
                               '%s: with a null PDU the initialiser performs a %s through the null pointer at %s'
                               % (where, n[1], bpa.fmt_loc((rel(n[2][0]), n[2][1], n[2][2])) if n[2] else '?')))
            else:
                issues.append(('C11', 'undecided', base, '%s (null PDU): %s' % (where, rec['reason'])))
            continue
        bad = [(n, r['writes']) for n, r in rec['regions'].items() if r['writes'] or r['unknown_write']]
        if bad:
            issues.append(('C11', 'violation', base + ':writes',
                           '%s: with a null PDU memory is written: %s' % (where, bad)))
        if legacy and rec['ret'] != (-22) & 0xffffffff:
            issues.append(('C11', 'violation', base + ':ret',
                           '%s: with a null PDU the legacy initialiser returns %r instead of -EINVAL'
                           % (where, rec['ret'])))
    return out


def accessor_functions(ctx, which):
    """names of the entry points of one kind over all formats"""
    out = []
    for f in ctx.spec['formats']:
        if which in ('get', 'all'):
            out.append(f['get_field'])
            out += [x['getter'] for x in f['fields'] if x.get('getter')]
        if which in ('set', 'all'):
            out.append(f['set_field'])
            out += [x['setter'] for x in f['fields'] if x.get('setter')]
    return [x for x in out if x]
