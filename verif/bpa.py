"""Bit-provenance abstract interpreter over LLVM-14 IR (see DESIGN.md 2.3).

The interpreter never chooses an input.  Buffer contents and scalar arguments
are symbolic bit terms (bits.py); control that depends only on constants is
followed (trace partitioning by iteration), control that depends on a symbolic
bit forks the analysis into worlds, control that depends on an unknown bit
makes the world *undecided*.
"""
from . import bits as B
from .bits import TOP, UNDEF
from .irparse import gep_result_type


class Ptr(object):
    __slots__ = ('region', 'off')

    def __init__(self, region, off):
        self.region = region
        self.off = off

    def __eq__(self, o):
        return isinstance(o, Ptr) and o.region == self.region and o.off == self.off

    def __hash__(self):
        return hash((self.region, self.off))

    def __repr__(self):
        if self.region is None:
            return 'null' if self.off == 0 else 'null+%r' % (self.off,)
        return '&%s%+d' % (self.region, self.off) if self.off is not None else '&%s+?' % self.region

    @property
    def is_null(self):
        return self.region is None


NULL = Ptr(None, 0)


class PtrInt(object):
    """Result of ptrtoint; only survives inttoptr and adding constants."""
    __slots__ = ('ptr',)

    def __init__(self, ptr):
        self.ptr = ptr


class Region(object):
    def __init__(self, name, kind, size=None, init=None, writable=True):
        self.name = name
        self.kind = kind          # 'sym' | 'undef' | 'global'
        self.size = size          # declared extent in bytes or None
        self.mem = dict(init) if init else {}
        self.writable = writable
        self.reads = set()
        self.writes = set()
        self.unknown_read = False
        self.unknown_write = False
        self.align = 1            # alignment of the object's first octet that its definition guarantees

    def initial(self, off):
        if self.kind == 'havoc':
            return (TOP,) * 8
        if self.kind == 'sym':
            n = self.name
            return tuple(('I', n, off, b) for b in range(8))
        if self.kind == 'global':
            return (TOP,) * 8
        return (UNDEF,) * 8

    def get(self, off):
        v = self.mem.get(off)
        if v is None:
            return self.initial(off)
        return v


class Agg(object):
    """value of a first-class aggregate: its memory image, cell by cell"""
    __slots__ = ('cells',)

    def __init__(self, cells):
        self.cells = list(cells)


class Undecided(Exception):
    pass


class Infeasible(Exception):
    """the path condition of this world has no satisfying assignment"""


class Halt(Exception):
    """raised by a model of an external function to end the execution normally (e.g. after the first send of an
    endless loop)"""


class StepLimit(Undecided):
    pass


class World(object):
    def __init__(self):
        self.status = 'ok'
        self.reason = None
        self.ret = None
        self.regions = {}
        self.decisions = []       # [(term, bool)]
        self.oob = []             # (region, off, n, 'r'|'w', loc)
        self.events = []          # external calls
        self.notes = []
        self.steps = 0

    def region(self, name):
        return self.regions[name]


class Frame(object):
    __slots__ = ('fn', 'regs', 'block', 'prev', 'idx', 'allocas')

    def __init__(self, fn):
        self.fn = fn
        self.regs = {}
        self.block = fn.entry
        self.prev = None
        self.idx = 0
        self.allocas = []


def type_bits(mod, t):
    t = mod.resolve(t)
    if t[0] == 'i':
        return t[1]
    if t[0] == 'fl':
        return t[1]
    if t[0] == 'p':
        return mod.ptr_bytes * 8
    return None


class Machine(object):
    """One execution (= one world, following a decision prefix)."""

    def __init__(self, mod, regions, prefix, max_steps=2000000, globals_cache=None):
        self.mod = mod
        self.w = World()
        self.w.regions = regions
        self.prefix = prefix
        self.ndec = 0
        self.max_steps = max_steps
        self.stack = []
        self.alloca_n = 0
        self.lazy_n = 0
        self.gcache = globals_cache if globals_cache is not None else {}
        self.cur = None
        self.externals = {}       # name -> callable(machine, args, ins) modelling an external function
        self.overrides = {}       # same, but also replaces functions *defined* in the module (I/O helpers)
        self.ptrints = {}         # address vectors produced by ptrtoint -> the pointer they came from

    # ---- helpers ----------------------------------------------------------
    def loc(self):
        if self.cur is not None and self.cur.dbg:
            l = self.mod.loc(self.cur.dbg)
            if l:
                return l
        if self.cur is not None:
            return (None, 0, self.cur.fn)
        return None

    def undecided(self, why):
        l = self.loc()
        raise Undecided('%s at %s' % (why, fmt_loc(l)))

    def global_region(self, name):
        r = self.w.regions.get('@' + name)
        if r is not None:
            return r
        g = self.mod.globals.get(name)
        if g is None:
            return None
        size = self.mod.sizeof(g.ty)
        init = None
        if g.init is not None and g.const:
            key = name
            if key not in self.gcache:
                mem = {}
                self.write_const(mem, 0, g.ty, g.init)
                self.gcache[key] = mem
            init = self.gcache[key]
        r = Region('@' + name, 'global', size, init, writable=not g.const)
        galign = getattr(g, 'align', None) or 1
        r.align = galign
        if not g.const:
            # a writable global: its content at the time of the call is whatever earlier calls left there -
            # symbolic, so that dependence on it shows up in the closed forms
            r = Region('@' + name, 'sym', size, None, writable=True)
            r.align = galign
        self.w.regions['@' + name] = r
        return r

    def write_const(self, mem, off, ty, val):
        mod = self.mod
        t = mod.resolve(ty)
        k = val[0]
        if k == 'zero' or k == 'null':
            for i in range(mod.sizeof(t)):
                mem[off + i] = 0
            return
        if k == 'undef':
            return
        if k == 'c':
            n = mod.sizeof(t)
            v = val[1] & B.mask(n * 8)
            bs = v.to_bytes(n, 'big' if mod.big_endian else 'little')
            for i in range(n):
                mem[off + i] = bs[i]
            return
        if k == 'str':
            for i, c in enumerate(val[1]):
                mem[off + i] = c
            return
        if k == 'agg':
            if t[0] == 's':
                for j, (et, ev) in enumerate(val[1]):
                    fo, _ = mod.field_offset(t, j)
                    self.write_const(mem, off + fo, et, ev)
            elif t[0] == 'a':
                es = mod.sizeof(t[2])
                for j, (et, ev) in enumerate(val[1]):
                    self.write_const(mem, off + j * es, et, ev)
            return
        if k in ('g', 'ce'):
            p = self.const_value(ty, val)
            if isinstance(p, Ptr):
                for i in range(mod.ptr_bytes):
                    mem[off + i] = ('P', p, i)
                return
        if k == 'fp':
            import struct
            n = mod.sizeof(t)
            txt = val[1]
            if txt.startswith('0x'):
                iv = int(txt, 16)
                if n == 4:
                    iv = struct.unpack('<I', struct.pack('<f', struct.unpack('<d', struct.pack('<Q', iv))[0]))[0]
            else:
                f = float(txt)
                iv = struct.unpack('<Q', struct.pack('<d', f))[0] if n == 8 else \
                    struct.unpack('<I', struct.pack('<f', f))[0]
            bs = iv.to_bytes(n, 'big' if mod.big_endian else 'little')
            for i in range(n):
                mem[off + i] = bs[i]
            return
        # unknown constant kinds leave memory unknown
        for i in range(mod.sizeof(t)):
            mem[off + i] = (TOP,) * 8

    def const_value(self, ty, val):
        k = val[0]
        if k == 'c':
            w = type_bits(self.mod, ty)
            return val[1] & B.mask(w) if w else val[1]
        if k == 'null':
            return NULL
        if k == 'g':
            name = val[1]
            if name in self.mod.functions or name in self.mod.declares:
                return Ptr(('fn', name), 0)
            r = self.global_region(name)
            if r is None:
                self.undecided('reference to unknown global @%s' % name)
            return Ptr(r.name, 0)
        if k == 'undef':
            w = type_bits(self.mod, ty)
            if self.mod.resolve(ty)[0] == 'p':
                return Ptr('?undef', None)
            return (UNDEF,) * w if w else None
        if k == 'zero':
            w = type_bits(self.mod, ty)
            return 0 if w else None
        if k == 'fp':
            mem = {}
            self.write_const(mem, 0, ty, val)
            n = self.mod.sizeof(ty)
            bs = bytes(mem[i] for i in range(n))
            return int.from_bytes(bs, 'big' if self.mod.big_endian else 'little')
        if k == 'ce':
            op = val[1]
            if op == 'getelementptr':
                bt, ops = val[2], val[3]
                base = self.const_value(ops[0][0], ops[0][1])
                idx = [self.const_value(t, v) for (t, v) in ops[1:]]
                return self.gep(base, bt, idx, [t for (t, v) in ops[1:]])
            if op == 'bitcast' or op == 'addrspacecast':
                return self.const_value(val[2][0], val[2][1])
            if op == 'ptrtoint':
                p = self.const_value(val[2][0], val[2][1])
                return PtrInt(p)
            if op == 'inttoptr':
                v = self.const_value(val[2][0], val[2][1])
                if isinstance(v, PtrInt):
                    return v.ptr
                if v == 0:
                    return NULL
                return Ptr('?int', None)
            if op in ('trunc', 'zext', 'sext'):
                v = self.const_value(val[2][0], val[2][1])
                wf = type_bits(self.mod, val[2][0])
                wt = type_bits(self.mod, val[3])
                return {'trunc': B.v_trunc, 'zext': B.v_zext, 'sext': B.v_sext}[op](v, wf, wt)
        self.undecided('unsupported constant %r' % (val,))

    def operand(self, tv):
        t, v = tv
        if v[0] == 'r':
            try:
                return self.stack[-1].regs[v[1]]
            except KeyError:
                self.undecided('use of undefined register %%%s' % v[1])
        return self.const_value(t, v)

    # ---- memory -----------------------------------------------------------
    def region_of(self, p, what):
        if not isinstance(p, Ptr):
            self.undecided('%s through a non-pointer value' % what)
        if p.region is None:
            self.w.notes.append(('null-deref', what, self.loc()))
            self.undecided('%s through a null pointer' % what)
        if isinstance(p.region, tuple):
            self.undecided('%s through a function pointer' % what)
        r = self.w.regions.get(p.region)
        if r is None and isinstance(p.region, str) and p.region.startswith('@'):
            # a pointer read from the (cached) initialiser of a constant global: materialise the pointee on demand
            r = self.global_region(p.region[1:])
        if r is None:
            self.undecided('%s through pointer into unknown region %r' % (what, p.region))
        return r

    def note_access(self, r, off, n, kind):
        if getattr(r, 'dead', False):
            self.w.notes.append(('use-after-scope', r.name, kind, self.loc()))
        if r.size is not None and (off < 0 or off + n > r.size):
            self.w.oob.append((r.name, off, n, kind, self.loc()))
        elif off < 0:
            self.w.oob.append((r.name, off, n, kind, self.loc()))
        if len(self.w.oob) > getattr(self, 'oob_limit', 64):
            # a run that keeps leaving its objects is decided already; do not follow it to the end of the step budget
            self.undecided('stopped after %d accesses outside the declared extents' % len(self.w.oob))
        s = r.reads if kind == 'r' else r.writes
        for i in range(off, off + n):
            s.add(i)

    def load_bytes(self, p, n):
        r = self.region_of(p, 'load')
        if p.off is None:
            r.unknown_read = True
            return None
        self.note_access(r, p.off, n, 'r')
        return [r.get(p.off + i) for i in range(n)]

    def load(self, p, ty):
        mod = self.mod
        t = mod.resolve(ty)
        n = mod.sizeof(t)
        if t[0] in ('s', 'a'):
            # a first-class aggregate (a small struct returned in registers): carried as its bytes
            bs = self.load_bytes(p, n)
            if bs is None:
                self.undecided('aggregate load at an unknown offset')
            return Agg(bs)
        bs = self.load_bytes(p, n)
        w = type_bits(mod, t)
        if bs is None:
            if t[0] == 'p':
                return Ptr('?unknown', None)
            return (TOP,) * w
        if t[0] == 'p':
            first = bs[0]
            if isinstance(first, tuple) and first and first[0] == 'P':
                ok = all(isinstance(b, tuple) and b and b[0] == 'P' and b[1] == first[1] and b[2] == i
                         for i, b in enumerate(bs))
                if ok:
                    return first[1]
                return Ptr('?mixed', None)
            if all(b == 0 for b in bs):
                return NULL
            # a pointer the caller left in symbolic memory: lazily give it a
            # region of its own (distinct from every other region)
            r = self.w.regions[p.region]
            if all(isinstance(b, tuple) and len(b) == 8 and isinstance(b[0], tuple) and b[0][0] == 'I' for b in bs):
                name = '*%s+%d' % (p.region, p.off)
                if name not in self.w.regions:
                    self.w.regions[name] = Region(name, 'sym', None)
                np = Ptr(name, 0)
                for i in range(n):
                    r.mem[p.off + i] = ('P', np, i)
                return np
            return Ptr('?garbage', None)
        if not mod.big_endian:
            order = bs
        else:
            order = bs[::-1]
        if w == 1:
            b0 = order[0]
            if isinstance(b0, int):
                return b0 & 1
            if b0 and b0[0] == 'P':
                return (TOP,)
            return B.norm(b0[:1])
        allint = True
        for b in order:
            if not isinstance(b, int):
                allint = False
                break
        if allint:
            v = 0
            for i, b in enumerate(order):
                v |= b << (8 * i)
            return v
        out = []
        for b in order:
            if isinstance(b, int):
                out.extend((b >> i) & 1 for i in range(8))
            elif b and b[0] == 'P':
                out.extend((TOP,) * 8)
            else:
                out.extend(b)
        return B.norm(out[:w]) if w < len(out) else B.norm(out)

    def store(self, p, ty, v):
        mod = self.mod
        t = mod.resolve(ty)
        n = mod.sizeof(t)
        r = self.region_of(p, 'store')
        if not r.writable:
            self.undecided('store into constant %s' % r.name)
        if p.off is None:
            r.unknown_write = True
            self.undecided('store at an unknown offset of %s' % r.name)
        self.note_access(r, p.off, n, 'w')
        if t[0] == 'p':
            if isinstance(v, Ptr):
                for i in range(n):
                    r.mem[p.off + i] = ('P', v, i)
            else:
                for i in range(n):
                    r.mem[p.off + i] = (TOP,) * 8
            return
        if t[0] in ('s', 'a'):
            if isinstance(v, Agg) and len(v.cells) == n:
                for i in range(n):
                    r.mem[p.off + i] = v.cells[i]
                return
            self.undecided('aggregate store')
        w = type_bits(mod, t)
        if isinstance(v, (Ptr, PtrInt)):
            for i in range(n):
                r.mem[p.off + i] = (TOP,) * 8
            return
        if isinstance(v, int):
            if w == 1:
                v &= 1
            bs = v.to_bytes(n, 'little')
            rng = range(n)
            for i in rng:
                r.mem[p.off + (n - 1 - i if mod.big_endian else i)] = bs[i]
            return
        bits = tuple(v) + (0,) * (n * 8 - len(v))
        for i in range(n):
            chunk = B.norm(bits[8 * i:8 * i + 8])
            r.mem[p.off + (n - 1 - i if mod.big_endian else i)] = chunk

    def havoc(self, p, what):
        """a write of unknown extent: everything the region held becomes unknown (the analysis goes on; the verdict
        is undecided only if those bytes are observed)"""
        r = self.region_of(p, what)
        if not r.writable:
            self.undecided('%s into constant %s' % (what, r.name))
        r.mem.clear()
        r.kind = 'havoc'
        r.unknown_write = True
        self.w.notes.append(('symbolic-length', what, r.name, self.loc()))

    def memcpy(self, dst, src, n):
        if not isinstance(n, int):
            if isinstance(src, Ptr) and src.region is not None and not isinstance(src.region, tuple) and src.region in self.w.regions:
                self.w.regions[src.region].unknown_read = True
            self.havoc(dst, 'memcpy with a non-constant length')
            return
        if n == 0:
            return
        rs = self.region_of(src, 'memcpy source')
        rd = self.region_of(dst, 'memcpy destination')
        if not rd.writable:
            self.undecided('memcpy into constant %s' % rd.name)
        if src.off is None:
            rs.unknown_read = True
            self.undecided('memcpy from an unknown offset')
        if dst.off is None:
            rd.unknown_write = True
            self.undecided('memcpy to an unknown offset')
        self.note_access(rs, src.off, n, 'r')
        self.note_access(rd, dst.off, n, 'w')
        data = [rs.get(src.off + i) for i in range(n)]
        for i in range(n):
            rd.mem[dst.off + i] = data[i]

    def memset(self, dst, c, n):
        if not isinstance(n, int):
            self.havoc(dst, 'memset with a non-constant length')
            return
        if n == 0:
            return
        rd = self.region_of(dst, 'memset destination')
        if not rd.writable:
            self.undecided('memset into constant %s' % rd.name)
        if dst.off is None:
            rd.unknown_write = True
            self.undecided('memset at an unknown offset')
        self.note_access(rd, dst.off, n, 'w')
        if isinstance(c, int):
            c &= 0xff
        else:
            c = B.norm(tuple(c)[:8])
        for i in range(n):
            rd.mem[dst.off + i] = c

    # ---- pointer arithmetic ----------------------------------------------
    def gep(self, base, bty, idx, idx_types):
        mod = self.mod
        if isinstance(base, PtrInt):
            base = base.ptr
        if not isinstance(base, Ptr):
            self.undecided('getelementptr on a non-pointer')
        off = base.off
        t = bty
        first = True
        for iv, it in zip(idx, idx_types):
            if first:
                stride = mod.sizeof(t)
                first = False
                if isinstance(iv, int):
                    w = type_bits(mod, it)
                    s = iv - (1 << w) if iv >> (w - 1) else iv
                    if off is not None:
                        off += s * stride
                else:
                    off = None
                continue
            rt = mod.resolve(t)
            if rt[0] == 's':
                fo, et = mod.field_offset(rt, iv)
                if off is not None:
                    off += fo
                t = et
            elif rt[0] in ('a', 'vec'):
                stride = mod.sizeof(rt[2])
                if isinstance(iv, int):
                    w = type_bits(mod, it)
                    s = iv - (1 << w) if iv >> (w - 1) else iv
                    if off is not None:
                        off += s * stride
                else:
                    off = None
                t = rt[2]
            else:
                self.undecided('getelementptr into a scalar')
        return Ptr(base.region, off)

    # ---- decisions --------------------------------------------------------
    def decide(self, term):
        if term == 1 or term == 0:
            return bool(term)
        if B.is_unknown(term):
            self.undecided('branch on an unknown value')
        for (t, d) in self.w.decisions:
            if t == term:
                return d
            if B.b_not(t) == term:
                return not d
        k = self.ndec
        self.ndec += 1
        if k < len(self.prefix):
            d = self.prefix[k]
        else:
            d = True
            self.prefix.append(True)
        self.w.decisions.append((term, d))
        if len(self.w.decisions) >= 2 and not self.small_feasible():
            raise Infeasible()
        return d

    def small_feasible(self):
        """exact satisfiability of the path condition when it mentions at most 10 variables (typically the low bits
        of a base address or a handful of flags); otherwise assumed feasible"""
        vs = set()
        for t, d in self.w.decisions:
            B.term_vars(t, vs)
            if len(vs) > 24:
                return True
        base = [v for v in vs if v[0] != 'C']
        if len(base) > 10:
            return True
        n = len(base)
        for k in range(1 << n):
            env = {base[i]: (k >> i) & 1 for i in range(n)}
            ok = True
            for t, d in self.w.decisions:
                try:
                    if bool(B.eval_term(t, env)) != d:
                        ok = False
                        break
                except ValueError:
                    return True
            if ok:
                return True
        return False

    # ---- execution --------------------------------------------------------
    def call(self, fname, args):
        fn = self.mod.functions[fname]
        fr = Frame(fn)
        if len(args) != len(fn.params):
            self.undecided('call of %s with %d arguments, %d expected' % (fname, len(args), len(fn.params)))
        for (pt, pn, _), a in zip(fn.params, args):
            fr.regs[pn] = a
        self.stack.append(fr)
        base_depth = len(self.stack)
        ret = self.run_frames(base_depth)
        return ret

    def run_frames(self, base_depth):
        mod = self.mod
        w = self.w
        while True:
            fr = self.stack[-1]
            blk = fr.fn.blocks[fr.block]
            ins = blk[fr.idx]
            fr.idx += 1
            self.cur = ins
            w.steps += 1
            if w.steps > self.max_steps:
                raise StepLimit('step budget of %d exhausted at %s' % (self.max_steps, fmt_loc(self.loc())))
            op = ins.op
            if op == 'dbg':
                continue
            if op == 'load':
                p = self.operand(ins.args[0])
                fr.regs[ins.dest] = self.load(p, ins.ty)
                continue
            if op == 'store':
                v = self.operand(ins.args[0])
                p = self.operand(ins.args[1])
                self.store(p, ins.args[0][0], v)
                continue
            if op == 'alloca':
                self.alloca_n += 1
                name = '%%%s.%s#%d' % (fr.fn.name, ins.dest, self.alloca_n)
                cnt = 1
                if ins.x['count'] is not None:
                    cnt = self.operand(ins.x['count'])
                    if not isinstance(cnt, int):
                        self.undecided('variable-length alloca with a non-constant size')
                r = Region(name, getattr(self, 'alloca_kind', 'undef'), mod.sizeof(ins.x['aty']) * cnt)
                r.align = ins.x.get('align') or 1
                w.regions[name] = r
                fr.allocas.append(name)
                fr.regs[ins.dest] = Ptr(name, 0)
                continue
            if op == 'getelementptr':
                base = self.operand(ins.args[0])
                idx = [self.operand(a) for a in ins.args[1:]]
                fr.regs[ins.dest] = self.gep(base, ins.x['bty'], idx, [a[0] for a in ins.args[1:]])
                continue
            if op == 'br':
                tg = ins.x['targets']
                if len(tg) == 1:
                    nxt = tg[0]
                else:
                    c = self.operand(ins.args[0])
                    if isinstance(c, tuple):
                        c = c[0]
                    nxt = tg[0] if self.decide(c) else tg[1]
                fr.prev = fr.block
                fr.block = nxt
                fr.idx = 0
                continue
            if op == 'ret':
                rv = self.operand(ins.args[0]) if ins.args else None
                for a in fr.allocas:
                    # the frame's locals die; keep the regions out of the result
                    w.regions.pop(a, None)
                self.stack.pop()
                if len(self.stack) < base_depth:
                    return rv
                caller = self.stack[-1]
                cins = caller.fn.blocks[caller.block][caller.idx - 1]
                if cins.dest is not None:
                    caller.regs[cins.dest] = rv
                continue
            if op == 'call':
                self.do_call(fr, ins)
                continue
            if op in _BIN:
                a = self.operand(ins.args[0])
                b = self.operand(ins.args[1])
                fr.regs[ins.dest] = self.binop(op, a, b, ins)
                continue
            if op == 'icmp':
                a = self.operand(ins.args[0])
                b = self.operand(ins.args[1])
                r = self.icmp(ins.x['pred'], a, b, ins.args[0][0])
                fr.regs[ins.dest] = r if isinstance(r, int) else (r,)
                continue
            if op in ('zext', 'sext', 'trunc'):
                a = self.operand(ins.args[0])
                wf = type_bits(mod, ins.args[0][0])
                wt = type_bits(mod, ins.ty)
                if isinstance(a, (Ptr, PtrInt)):
                    fr.regs[ins.dest] = a if op != 'trunc' else B.v_top(wt)
                    continue
                if op == 'zext':
                    fr.regs[ins.dest] = B.v_zext(a, wf, wt)
                elif op == 'sext':
                    fr.regs[ins.dest] = B.v_sext(a, wf, wt)
                else:
                    fr.regs[ins.dest] = B.v_trunc(a, wf, wt)
                continue
            if op == 'bitcast' or op == 'addrspacecast':
                a = self.operand(ins.args[0])
                fr.regs[ins.dest] = a
                continue
            if op == 'phi':
                # all phis of a block read their inputs simultaneously
                vals = {}
                j = fr.idx - 1
                while j < len(blk) and blk[j].op == 'phi':
                    pi = blk[j]
                    for (tv, lbl) in pi.x['incoming']:
                        if lbl == fr.prev:
                            vals[pi.dest] = self.operand(tv)
                            break
                    else:
                        self.undecided('phi without incoming edge for %s' % fr.prev)
                    j += 1
                fr.regs.update(vals)
                fr.idx = j
                continue
            if op == 'select':
                c = self.operand(ins.args[0])
                a = self.operand(ins.args[1])
                b = self.operand(ins.args[2])
                if isinstance(c, tuple):
                    c = c[0]
                if c == 1:
                    fr.regs[ins.dest] = a
                elif c == 0:
                    fr.regs[ins.dest] = b
                else:
                    wt = type_bits(mod, ins.ty)
                    if isinstance(a, Ptr) or isinstance(b, Ptr):
                        if a == b:
                            fr.regs[ins.dest] = a
                        else:
                            fr.regs[ins.dest] = a if self.decide(c) else b
                    else:
                        ab, bb = B.to_bits(a, wt), B.to_bits(b, wt)
                        fr.regs[ins.dest] = B.norm([B.b_ite(c, x, y) for x, y in zip(ab, bb)])
                continue
            if op == 'switch':
                v = self.operand(ins.args[0])
                wv = type_bits(mod, ins.args[0][0])
                nxt = None
                if isinstance(v, int):
                    nxt = ins.x['default']
                    for (cv, lbl) in ins.x['cases']:
                        if cv & B.mask(wv) == v:
                            nxt = lbl
                            break
                else:
                    for (cv, lbl) in ins.x['cases']:
                        t = B.v_icmp('eq', v, cv & B.mask(wv), wv)
                        if self.decide(t):
                            nxt = lbl
                            break
                    if nxt is None:
                        nxt = ins.x['default']
                fr.prev = fr.block
                fr.block = nxt
                fr.idx = 0
                continue
            if op == 'ptrtoint':
                a = self.operand(ins.args[0])
                wt = type_bits(mod, ins.ty)
                if isinstance(a, Ptr):
                    if a.is_null and a.off == 0:
                        fr.regs[ins.dest] = 0
                    elif isinstance(a.region, str) and a.off is not None and a.region[:1] not in '?':
                        # the address is an unknown number: base address of the region (symbolic, any alignment)
                        # plus the known offset.  Tests such as (uintptr_t)p % 4 then fork on the placement.
                        base = sym_arg('&' + a.region, wt)
                        reg = self.w.regions.get(a.region)
                        al = getattr(reg, 'align', 1) or 1
                        if al > 1 and not (al & (al - 1)):
                            # a stack object or global: its definition fixes the low address bits
                            k = al.bit_length() - 1
                            base = (0,) * k + tuple(base[k:])
                        v = B.v_add(base, a.off & B.mask(wt), wt)
                        self.ptrints[B.to_bits(v, wt)] = a
                        fr.regs[ins.dest] = v
                    else:
                        fr.regs[ins.dest] = PtrInt(a)
                else:
                    fr.regs[ins.dest] = B.v_top(wt)
                continue
            if op == 'inttoptr':
                a = self.operand(ins.args[0])
                if isinstance(a, PtrInt):
                    fr.regs[ins.dest] = a.ptr
                elif isinstance(a, tuple) and a in self.ptrints:
                    fr.regs[ins.dest] = self.ptrints[a]
                elif a == 0:
                    fr.regs[ins.dest] = NULL
                else:
                    fr.regs[ins.dest] = Ptr('?int', None)
                continue
            if op in ('extractvalue', 'insertvalue') and ins.args and ins.x.get('indices') is not None:
                aty = ins.args[0][0]
                off, fty = 0, aty
                ok = True
                for ix in ins.x['indices']:
                    rt = mod.resolve(fty)
                    if rt[0] == 's':
                        fo, et = mod.field_offset(rt, ix)
                        off += fo
                        fty = et
                    elif rt[0] == 'a':
                        off += ix * mod.sizeof(rt[2])
                        fty = rt[2]
                    else:
                        ok = False
                        break
                n = mod.sizeof(aty)
                base = self.operand(ins.args[0])
                if ok and not isinstance(base, Agg):
                    base = Agg([(UNDEF,) * 8] * n)          # undef / zeroinitializer aggregate being built up
                if ok and len(base.cells) == n:
                    scratch = Region('%%agg.%d' % fr.idx, 'undef', n)
                    for i in range(n):
                        scratch.mem[i] = base.cells[i]
                    w.regions[scratch.name] = scratch
                    if op == 'extractvalue':
                        fr.regs[ins.dest] = self.load(Ptr(scratch.name, off), fty)
                    else:
                        self.store(Ptr(scratch.name, off), ins.args[1][0], self.operand(ins.args[1]))
                        fr.regs[ins.dest] = Agg([scratch.get(i) for i in range(n)])
                    del w.regions[scratch.name]
                    continue
            if op == 'unreachable':
                self.undecided('reached unreachable')
            if op in ('fptrunc', 'fpext', 'fptoui', 'fptosi', 'uitofp', 'sitofp', 'fneg',
                      'fadd', 'fsub', 'fmul', 'fdiv', 'frem', 'fcmp'):
                wt = type_bits(mod, ins.ty) or 1
                vals = [self.operand(a) for a in ins.args]
                if all(isinstance(v, int) for v in vals):
                    r = fp_concrete(mod, op, ins, vals, wt)
                    if r is not None:
                        fr.regs[ins.dest] = r
                        continue
                # symbolic floating-point arithmetic is not interpreted: the result is a fresh unconstrained value (named
                # by its position in this execution, so that re-execution under a decision prefix reproduces it)
                self.fp_n = getattr(self, 'fp_n', 0) + 1
                fr.regs[ins.dest] = tuple(('A', 'fp%d' % self.fp_n, i) for i in range(wt))
                continue
            self.undecided('unsupported instruction %s' % op)

    def binop(self, op, a, b, ins):
        mod = self.mod
        w = type_bits(mod, ins.ty)
        if isinstance(a, PtrInt) or isinstance(b, PtrInt):
            if op == 'add' and isinstance(a, PtrInt) and isinstance(b, int):
                s = b - (1 << w) if b >> (w - 1) else b
                return PtrInt(Ptr(a.ptr.region, a.ptr.off + s if a.ptr.off is not None else None))
            if op == 'add' and isinstance(b, PtrInt) and isinstance(a, int):
                return self.binop(op, b, a, ins)
            if op == 'sub' and isinstance(a, PtrInt) and isinstance(b, PtrInt) and \
                    a.ptr.region == b.ptr.region and a.ptr.off is not None and b.ptr.off is not None:
                return (a.ptr.off - b.ptr.off) & B.mask(w)
            if op == 'sub' and isinstance(a, PtrInt) and isinstance(b, int):
                s = b - (1 << w) if b >> (w - 1) else b
                return PtrInt(Ptr(a.ptr.region, a.ptr.off - s if a.ptr.off is not None else None))
            return B.v_top(w)
        if isinstance(a, Ptr) or isinstance(b, Ptr):
            return B.v_top(w)
        if op == 'sub' and isinstance(a, tuple) and isinstance(b, tuple):
            # difference of two symbolic addresses inside the same object: the base cancels exactly
            pa, pb = self.ptrints.get(B.to_bits(a, w)), self.ptrints.get(B.to_bits(b, w))
            if pa is not None and pb is not None and pa.region == pb.region and pa.off is not None and pb.off is not None:
                return (pa.off - pb.off) & B.mask(w)
        if op == 'and':
            return B.v_and(a, b, w)
        if op == 'or':
            return B.v_or(a, b, w)
        if op == 'xor':
            return B.v_xor(a, b, w)
        if op == 'add':
            return B.v_add(a, b, w)
        if op == 'sub':
            return B.v_sub(a, b, w)
        if op == 'mul':
            return B.v_mul(a, b, w)
        if op in ('shl', 'lshr', 'ashr'):
            if not isinstance(b, int):
                return B.v_top(w)
            if b >= w:
                # poison in LLVM; the C source has undefined behaviour here
                self.w.notes.append(('shift-out-of-range', op, b, w, self.loc()))
                return B.v_top(w)
            return {'shl': B.v_shl, 'lshr': B.v_lshr, 'ashr': B.v_ashr}[op](a, b, w)
        if op in ('udiv', 'urem', 'sdiv', 'srem'):
            if isinstance(a, int) and isinstance(b, int):
                if b == 0:
                    self.undecided('division by zero')
                if op == 'udiv':
                    return a // b
                if op == 'urem':
                    return a % b
                sa = a - (1 << w) if a >> (w - 1) else a
                sb = b - (1 << w) if b >> (w - 1) else b
                q = abs(sa) // abs(sb)
                if (sa < 0) != (sb < 0):
                    q = -q
                if op == 'sdiv':
                    return q & B.mask(w)
                return (sa - q * sb) & B.mask(w)
            if isinstance(b, int) and b and b & (b - 1) == 0:
                k = b.bit_length() - 1
                signed_ok = op[0] == 'u' or (not isinstance(a, int) and a[w - 1] == 0)
                if signed_ok:
                    if op in ('udiv', 'sdiv'):
                        return B.v_lshr(a, k, w)
                    return B.v_and(a, b - 1, w)
            return B.v_top(w)
        self.undecided('unsupported binary op %s' % op)

    def icmp(self, pred, a, b, ty):
        mod = self.mod
        t = mod.resolve(ty)
        if t[0] == 'p' or isinstance(a, Ptr) or isinstance(b, Ptr):
            if isinstance(a, PtrInt):
                a = a.ptr
            if isinstance(b, PtrInt):
                b = b.ptr
            if isinstance(a, int) and a == 0:
                a = NULL
            if isinstance(b, int) and b == 0:
                b = NULL
            if isinstance(a, Ptr) and isinstance(b, Ptr):
                if isinstance(a.region, str) and a.region[:1] in '?*' or \
                        isinstance(b.region, str) and b.region[:1] in '?*':
                    # unknown pointers, and pointers found in symbolic memory, may alias anything
                    if a.region == b.region and a.off is not None and b.off is not None:
                        return int(B.cmp_concrete(pred, a.off & B.mask(64), b.off & B.mask(64), 64))
                    if (a.is_null or b.is_null) and (a.region or b.region)[:1] == '?':
                        return TOP
                    return TOP
                if a.region == b.region:
                    if a.off is None or b.off is None:
                        return TOP
                    return int(B.cmp_concrete(pred, a.off & B.mask(64), b.off & B.mask(64), 64))
                if pred == 'eq':
                    return 0
                if pred == 'ne':
                    return 1
            return TOP
        if isinstance(a, PtrInt) or isinstance(b, PtrInt):
            return TOP
        w = t[1]
        return B.v_icmp(pred, a, b, w)

    def do_call(self, fr, ins):
        mod = self.mod
        callee = ins.x['callee']
        if callee[0] == 'r':
            fp = fr.regs.get(callee[1])
            if isinstance(fp, Ptr) and isinstance(fp.region, tuple):
                name = fp.region[1]
            else:
                self.undecided('indirect call through an unknown pointer')
        elif callee[0] == 'g':
            name = callee[1]
        elif callee[0] == 'ce' and callee[1] == 'bitcast':
            inner = callee[2][1]
            if inner[0] != 'g':
                self.undecided('call through a constant expression')
            name = inner[1]
        else:
            self.undecided('unsupported callee')
        args = [self.operand(a) for a in ins.args]
        if name in self.overrides:
            res = self.overrides[name](self, args, ins)
            if ins.dest is not None:
                fr.regs[ins.dest] = res
            return
        if name in mod.functions:
            fn = mod.functions[name]
            if len(args) != len(fn.params):
                self.undecided('call of %s with a mismatching argument list' % name)
            nf = Frame(fn)
            for (pt, pn, _), a in zip(fn.params, args):
                nf.regs[pn] = a
            if len(self.stack) > 200:
                self.undecided('call depth limit')
            self.stack.append(nf)
            return
        res = self.intrinsic(name, args, ins)
        if ins.dest is not None:
            fr.regs[ins.dest] = res

    def intrinsic(self, name, args, ins):
        mod = self.mod
        if name.startswith('llvm.memcpy') or name.startswith('llvm.memmove') or \
                name in ('memcpy', 'memmove', '__memcpy_chk', '__memmove_chk'):
            self.memcpy(args[0], args[1], args[2])
            return args[0]
        if name.startswith('llvm.memset') or name in ('memset', '__memset_chk'):
            self.memset(args[0], args[1], args[2])
            return args[0]
        if name.startswith('llvm.lifetime'):
            # start and end of an object's lifetime: its content is indeterminate from here on (a pointer kept beyond
            # the end of the scope reads garbage once a compiler reuses the slot)
            p = args[1] if len(args) > 1 else None
            if isinstance(p, Ptr) and isinstance(p.region, str) and p.region in self.w.regions and p.off == 0:
                r = self.w.regions[p.region]
                n = args[0] if isinstance(args[0], int) else None
                if r.kind in ('undef', 'sym') and p.region.startswith('%') and (n is None or n < 0 or r.size is None or n >= r.size):
                    r.mem = {}
                    r.dead = name.startswith('llvm.lifetime.end')
                    if r.kind == 'sym' and r.dead:
                        r.kind = 'undef'
            return None
        if name.startswith('__builtin_speculation_safe_value'):
            # GCC's Spectre barrier: returns its first argument (clang does not know the builtin and emits a call)
            return args[0]
        if name.startswith('llvm.is.constant'):
            # __builtin_constant_p: whether the optimiser will know the value depends on the call site - both answers
            # are possible for a symbolic operand, so both branches must satisfy the property
            # One unknown per call *site* (not per execution): the optimiser decides a site once; and also for operands
            # that are concrete here - a length this harness fixes is a run-time value in the user's program.
            site = '%s.%s.%s' % (getattr(ins, 'fn', '?'), getattr(ins, 'bb', '?'), getattr(ins, 'idx', '?'))
            return (('A', 'isconstant@' + site, 0),)
        if name.startswith('llvm.dbg') or \
                name.startswith('llvm.assume') or name.startswith('llvm.donothing'):
            return None
        if name.startswith('llvm.bswap'):
            w = type_bits(mod, ins.ty)
            return B.bswap(args[0], w)
        if name.startswith('llvm.umin') or name.startswith('llvm.umax') or \
                name.startswith('llvm.smin') or name.startswith('llvm.smax'):
            w = type_bits(mod, ins.ty)
            a, b = args[0], args[1]
            if isinstance(a, int) and isinstance(b, int):
                k = name[5:9]
                pred = {'umin': 'ult', 'umax': 'ugt', 'smin': 'slt', 'smax': 'sgt'}[k]
                return a if B.cmp_concrete(pred, a, b, w) else b
            return B.v_top(w)
        if name.startswith('llvm.fshl') or name.startswith('llvm.fshr'):
            w = type_bits(mod, ins.ty)
            a, b, s = args
            if isinstance(s, int):
                s %= w
                ab = B.to_bits(a, w)
                bb = B.to_bits(b, w)
                cat = tuple(bb) + tuple(ab)       # low = b, high = a
                if name.startswith('llvm.fshl'):
                    return B.norm(cat[w - s:2 * w - s]) if s else B.norm(ab)
                return B.norm(cat[s:s + w])
            return B.v_top(w)
        if name.startswith('llvm.objectsize'):
            w = type_bits(mod, ins.ty)
            return B.mask(w)
        if name.startswith('llvm.expect'):
            return args[0]
        if name.startswith('llvm.abs') and isinstance(args[0], int):
            w = type_bits(mod, ins.ty)
            a = args[0]
            sa = a - (1 << w) if a >> (w - 1) else a
            return abs(sa) & B.mask(w)
        if (name.startswith('llvm.ctpop') or name.startswith('llvm.ctlz') or name.startswith('llvm.cttz')) \
                and isinstance(args[0], int):
            w = type_bits(mod, ins.ty)
            a = args[0]
            if 'ctpop' in name:
                return bin(a).count('1')
            if 'ctlz' in name:
                return w - a.bit_length()
            return (a & -a).bit_length() - 1 if a else w
        model = self.externals.get(name)
        if model is not None:
            return model(self, args, ins)
        # anything else has effects the analysis cannot see
        self.w.events.append((name, args, self.loc()))
        self.undecided('call to external function %s' % name)


_BIN = {'add', 'sub', 'mul', 'udiv', 'sdiv', 'urem', 'srem', 'shl', 'lshr', 'ashr', 'and', 'or', 'xor'}


def fmt_loc(l):
    if not l:
        return '<unknown>'
    f, line, fn = l
    return '%s:%s (%s)' % (f or '?', line, fn)


def _fp_dec(bits, w):
    import struct
    return struct.unpack('<d', struct.pack('<Q', bits))[0] if w == 64 else struct.unpack('<f', struct.pack('<I', bits))[0]


def _fp_enc(x, w):
    import struct
    try:
        return struct.unpack('<Q', struct.pack('<d', x))[0] if w == 64 else struct.unpack('<I', struct.pack('<f', x))[0]
    except OverflowError:
        return None


def fp_concrete(mod, op, ins, vals, wt):
    """IEEE-754 float/double operations on concrete operands (bit patterns); None if not handled"""
    import math
    try:
        if op in ('sitofp', 'uitofp'):
            sw = type_bits(mod, ins.args[0][0])
            v = vals[0]
            if op == 'sitofp' and v >> (sw - 1):
                v -= 1 << sw
            return _fp_enc(float(v), wt) if wt in (32, 64) else None
        sw = type_bits(mod, ins.args[0][0])
        if sw not in (32, 64):
            return None
        a = _fp_dec(vals[0], sw)
        if op in ('fptoui', 'fptosi'):
            if math.isnan(a) or math.isinf(a):
                return None
            v = int(a)
            if op == 'fptoui' and not (0 <= v < (1 << wt)):
                return None
            if op == 'fptosi' and not (-(1 << (wt - 1)) <= v < (1 << (wt - 1))):
                return None
            return v & B.mask(wt)
        if op in ('fpext', 'fptrunc'):
            return _fp_enc(a, wt) if wt in (32, 64) else None
        if op == 'fneg':
            return vals[0] ^ (1 << (sw - 1))
        b = _fp_dec(vals[1], sw)
        if op == 'fcmp':
            pred = ins.x.get('pred')
            un = math.isnan(a) or math.isnan(b)
            table = {'oeq': (not un) and a == b, 'ogt': (not un) and a > b, 'oge': (not un) and a >= b,
                     'olt': (not un) and a < b, 'ole': (not un) and a <= b, 'one': (not un) and a != b, 'ord': not un,
                     'ueq': un or a == b, 'ugt': un or a > b, 'uge': un or a >= b, 'ult': un or a < b, 'ule': un or a <= b,
                     'une': un or a != b, 'uno': un, 'true': True, 'false': False}
            return int(table[pred]) if pred in table else None
        if wt not in (32, 64):
            return None
        if op == 'fadd':
            r = a + b
        elif op == 'fsub':
            r = a - b
        elif op == 'fmul':
            r = a * b
        elif op == 'fdiv':
            if b == 0:
                return None
            r = a / b
        else:
            return None
        return _fp_enc(r, wt)
    except (ValueError, OverflowError, KeyError):
        return None


def initial_global_regions(mod, skip=()):
    """writable globals with the content of their initialisers: the state of a program that has just started"""
    m = Machine(mod, {}, [], 0, {})
    out = {}
    for name, g in mod.globals.items():
        key = '@' + name
        if key in skip or g.const or g.init is None or name.startswith('llvm.'):
            continue
        try:
            mem = {}
            m.write_const(mem, 0, g.ty, g.init)
        except Exception:
            continue
        r = Region(key, 'global', mod.sizeof(g.ty), mem, writable=True)
        r.align = getattr(g, 'align', None) or 1
        out[key] = r
    return out


def sym_arg(name, w):
    return tuple(('A', name, i) for i in range(w))


def analyse(mod, fname, make_args, max_worlds=64, max_steps=600000, gcache=None, externals=None, overrides=None,
            alloca_kind='undef', oob_limit=64):
    """Run `fname` in every world.  make_args() -> (args, regions) must build
    fresh argument values and regions for each execution.  Returns the list of
    World objects (status 'ok' or 'undecided')."""
    if not callable(fname) and fname not in mod.functions:
        raise KeyError(fname)
    worlds = []
    pending = [[]]
    gcache = gcache if gcache is not None else {}
    while pending:
        if len(worlds) >= max_worlds:
            w = World()
            w.status = 'undecided'
            w.reason = 'more than %d worlds' % max_worlds
            worlds.append(w)
            break
        prefix = pending.pop()
        plen = len(prefix)
        args, regions = make_args()
        m = Machine(mod, regions, prefix, max_steps, gcache)
        m.oob_limit = oob_limit
        m.alloca_kind = alloca_kind     # 'sym': stack objects start with arbitrary (but fixed) content instead of 'uninitialised'
        if externals:
            m.externals = externals
        if overrides:
            m.overrides = overrides
        try:
            if callable(fname):
                # a script: several calls on the same regions, one world
                m.w.ret = fname(m, args)
            else:
                m.w.ret = m.call(fname, args)
        except Halt:
            m.w.ret = None
        except Infeasible:
            m.w.status = 'infeasible'
        except Undecided as e:
            m.w.status = 'undecided'
            m.w.reason = str(e)
        worlds.append(m.w)
        # schedule siblings for every decision taken beyond the given prefix
        for i in range(plen, len(m.prefix)):
            pending.append(m.prefix[:i] + [not m.prefix[i]])
    return worlds
