"""Promise attributes on library functions (visible in the -O0 IR as function,
parameter and return attributes): `__attribute__((const))` / `((pure))`
(readnone / readonly), `((nonnull))`, `[static N]` array parameters
(dereferenceable), `((returns_nonnull))`.

The engine interprets -O0 code, where such promises change nothing; an
optimising compiler - of the library or, through the public prototype, of the
*caller* - is entitled to rely on them: it merges or hoists calls of a `const`
function across stores, and deletes the null test of a `nonnull` parameter.  A
promise the function's own body does not keep therefore breaks, in optimised
builds, exactly the behaviour the -O0 analysis proves.  This rule compares each
promise with the body:

  readnone   the body (and every callee) must not access memory other than its
             own stack objects;
  readonly   the body (and every callee) must not write such memory;
  nonnull / dereferenceable(N) on a parameter, nonnull on the result
             contradict the documented handling of null arguments (C11): the
             null test may be compiled away.

-> {function: [(kind, text)]}"""
import re

from . import rules

MEM_INTRINSICS = ('llvm.memcpy', 'llvm.memmove', 'llvm.memset', 'memcpy', 'memmove', 'memset')


def attribute_groups(ll_text):
    groups = {}
    for m in re.finditer(r'^attributes #(\d+) = \{([^}]*)\}', ll_text, re.M):
        words = set(w for w in re.findall(r'(?<!["=\w])([a-z_]+)(?![\w"=])', m.group(2)))
        groups[m.group(1)] = words
    fattr = {}
    for m in re.finditer(r'^define [^@\n]*@("[^"]+"|[\w.$]+)\(.*?\)([^{\n]*)\{', ll_text, re.M):
        name = m.group(1).strip('"')
        g = re.findall(r'#(\d+)', m.group(2))
        a = set()
        for x in g:
            a |= groups.get(x, set())
        a |= set(re.findall(r'\b(readnone|readonly|writeonly|noreturn)\b', m.group(2)))
        fattr[name] = a
    return fattr


def _param_attr_names(attrs):
    out = set()
    for a in attrs or ():
        if isinstance(a, tuple):
            out.add(a[0])
        else:
            out.add(a)
    return out


def scan(mod, ll_text, facts=None):
    fattr = attribute_groups(ll_text)
    facts = facts or rules.analyse_module(mod)
    # memory effects per function: direct accesses through pointers that are not the function's own stack objects
    direct_r, direct_w, calls = {}, {}, {}
    for name, fn in mod.functions.items():
        pf = facts.get(name)
        r = w = False
        cs = set()
        for ins in fn.instrs():
            if ins.op in ('load', 'store'):
                ptr = ins.args[0] if ins.op == 'load' else ins.args[1]
                o = pf.val_origin(ptr) if pf else None
                local = o is not None and len(o) > 0 and all(x.startswith('alloca:') for x in o)
                if not local:
                    if ins.op == 'load':
                        r = True
                    else:
                        w = True
            elif ins.op == 'call':
                c = ins.x['callee']
                cn = c[1] if c[0] == 'g' else None
                if cn is None:
                    r = w = True
                    continue
                if cn.startswith('llvm.dbg') or cn.startswith('llvm.lifetime'):
                    continue
                if any(cn.startswith(p) for p in MEM_INTRINSICS):
                    d = pf.val_origin(ins.args[0]) if pf else None
                    if not (d and all(x.startswith('alloca:') for x in d)):
                        w = True
                    if not cn.startswith(('llvm.memset', 'memset')):
                        s = pf.val_origin(ins.args[1]) if pf else None
                        if not (s and all(x.startswith('alloca:') for x in s)):
                            r = True
                    continue
                cs.add(cn)
        direct_r[name], direct_w[name], calls[name] = r, w, cs
    # transitive closure
    reads, writes = dict(direct_r), dict(direct_w)
    changed = True
    while changed:
        changed = False
        for name in mod.functions:
            for c in calls[name]:
                if c in mod.functions:
                    cr, cw = reads[c], writes[c]
                else:
                    cr = cw = not c.startswith('llvm.')     # an external function: assume it touches memory
                if cr and not reads[name]:
                    reads[name] = True
                    changed = True
                if cw and not writes[name]:
                    writes[name] = True
                    changed = True
    out = {}
    for name, fn in mod.functions.items():
        issues = []
        a = fattr.get(name, set())
        if 'readnone' in a and (reads[name] or writes[name]):
            issues.append(('const-promise', 'is declared __attribute__((const)) (IR: readnone) but %s memory outside its own stack: an '
                           'optimising compiler may merge or hoist its calls across writes to that memory, so a second call returns '
                           'the first call\'s result' % ('reads' if reads[name] else 'writes')))
        if 'readonly' in a and writes[name]:
            issues.append(('pure-promise', 'is declared __attribute__((pure)) (IR: readonly) but writes memory outside its own stack: an '
                           'optimising compiler may drop or merge its calls'))
        for k, (pt, pn, attrs) in enumerate(fn.params):
            names = _param_attr_names(attrs)
            if 'nonnull' in names:
                issues.append(('nonnull-param:%d' % k, 'declares parameter %d (%s) nonnull: an optimising compiler may delete the '
                               'function\'s null test, so a null argument is dereferenced instead of rejected' % (k, pn)))
            if 'dereferenceable' in names:
                issues.append(('dereferenceable-param:%d' % k, 'declares parameter %d (%s) as an array of static minimum size (IR: '
                               'dereferenceable): a null or shorter argument is undefined behaviour and the null test may be '
                               'deleted' % (k, pn)))
        if 'nonnull' in _param_attr_names(getattr(fn, 'ret_attrs', ())):
            issues.append(('nonnull-return', 'promises a non-null result (returns_nonnull)'))
        for at in getattr(fn, 'ret_attrs', ()) or ():
            if isinstance(at, tuple) and at[0] == 'align' and rules.is_ptr(mod, fn.ret):
                decl = rules.abi_align(mod, rules.pointee(mod, fn.ret))
                if at[1] > decl:
                    issues.append(('aligned-return', 'promises its callers a result aligned to %d octets (assume_aligned), but the '
                                   'pointer type only guarantees %d: the caller\'s compiler may use aligned wide accesses on a PDU '
                                   'that lies anywhere' % (at[1], decl)))
        for k, (pt, pn, attrs) in enumerate(fn.params):
            if _param_attr_names(attrs) & {'byval', 'sret', 'inalloca', 'byref', 'preallocated'}:
                continue        # the ABI's own stack slot for an aggregate: its alignment is not a promise about caller data
            for at in attrs or ():
                if isinstance(at, tuple) and at[0] == 'align' and rules.is_ptr(mod, pt):
                    decl = rules.abi_align(mod, rules.pointee(mod, pt))
                    if at[1] > decl:
                        issues.append(('aligned-param:%d' % k, 'declares parameter %d (%s) aligned to %d octets, its type only '
                                       'guarantees %d' % (k, pn, at[1], decl)))
        if issues:
            out[name] = issues
    for name, texts in bitfield_promotion_hazards(mod).items():
        for t in sorted(set(texts)):
            out.setdefault(name, []).append(('bitfield-promotion', t))
    for name, texts in eval_order_hazards(mod, facts).items():
        for t in sorted(set(texts)):
            out.setdefault(name, []).append(('evaluation-order', t))
    for name, (n, hdr, attr) in header_alignment_promises(mod).items():
        fn = mod.functions[name]
        decl = rules.abi_align(mod, rules.pointee(mod, fn.ret)) if rules.is_ptr(mod, fn.ret) else 1
        if attr.startswith('alloc_align') or n is None or n > decl:
            out.setdefault(name, []).append(('aligned-return', 'is declared %s(%s) in %s: callers are told that the returned pointer is '
                                             'aligned to that many octets, but its type only guarantees %d and the PDU may lie '
                                             'anywhere - the caller\'s compiler may use aligned wide accesses or fold alignment '
                                             'tests' % (attr, n if n is not None else '?', hdr, decl)))
    for name, (hdr, line, what) in macro_shadows(mod).items():
        out.setdefault(name, []).append(('macro-shadow', 'is shadowed by %s of the same name at %s:%d: where that '
                                         'definition is active, callers do not reach this function, and nothing proved about '
                                         'it (null handling, returned bits, frame condition) holds for them'
                                         % ('a preprocessor macro' if what == 'macro' else 'an inline function definition', hdr, line)))
    return out


TEMP_NAME = re.compile(r'^(agg\.tmp|ref\.tmp|coerce|indirect-arg-temp|byval-temp|agg-temp)')


def eval_order_hazards(mod, facts):
    """{function: [text]}: a call whose argument list both reads a local variable and contains a nested call that is
    handed the address of the same variable and writes through it - `f(p + n, g(&n))`.  C leaves the order in which
    arguments are evaluated unspecified (clang: left to right, GCC on most targets: right to left), so the two
    compilers build different programs; the IR analysed here is only clang's."""
    out = {}
    for name, fn in mod.functions.items():
        pf = facts.get(name)
        if pf is None:
            continue
        defs = {}
        for ins in fn.instrs():
            if ins.dest is not None:
                defs[ins.dest] = ins
        temp_stores = {}
        for ins in fn.instrs():
            if ins.op == 'store':
                dst = ins.args[1]
                while dst[1][0] == 'r' and defs.get(dst[1][1]) is not None and defs[dst[1][1]].op in ('bitcast', 'getelementptr'):
                    dst = defs[dst[1][1]].args[0]
                if dst[1][0] == 'r' and TEMP_NAME.match(str(dst[1][1])):
                    temp_stores.setdefault(dst[1][1], []).append(ins)

        def cone(tv, acc, depth=0):
            t, v = tv
            if v[0] != 'r' or depth > 40:
                return
            ins = defs.get(v[1])
            if ins is None or id(ins) in acc:
                return
            acc[id(ins)] = ins
            if ins.op == 'load':
                # an aggregate temporary of the compiler (struct returned by value and passed on): look through it
                src = ins.args[0]
                while src[1][0] == 'r' and defs.get(src[1][1]) is not None and defs[src[1][1]].op in ('bitcast', 'getelementptr'):
                    src = defs[src[1][1]].args[0]
                if src[1][0] == 'r' and TEMP_NAME.match(str(src[1][1])):
                    for st in temp_stores.get(src[1][1], ()):
                        cone(st.args[0], acc, depth + 1)
                return
            if ins.op in ('alloca', 'phi'):
                return
            for a in ins.args:
                cone(a, acc, depth + 1)
        summ = facts
        BINARY = ('add', 'sub', 'mul', 'udiv', 'sdiv', 'urem', 'srem', 'shl', 'lshr', 'ashr', 'and', 'or', 'xor', 'icmp')
        for ins in fn.instrs():
            if ins.op in BINARY:
                # the operands of an arithmetic operator are unsequenced in the same way: `n + f(&n)`
                if len(ins.args) != 2:
                    continue
            elif ins.op != 'call' or len(ins.args) < 2:
                continue
            else:
                c = ins.x['callee']
                if c[0] == 'g' and (c[1].startswith('llvm.dbg') or c[1].startswith('llvm.lifetime')):
                    continue
            cones = []
            for a in ins.args:
                acc = {}
                cone(a, acc)
                cones.append(acc)
            reads = []     # per argument: allocas loaded
            writes = []    # per argument: allocas whose address goes to a nested call that may write it
            for acc in cones:
                r, w = set(), {}
                for x in acc.values():
                    if x.op == 'load':
                        o = pf.val_origin(x.args[0]) or ()
                        for k in o:
                            if k.startswith('alloca:'):
                                r.add(k[7:])
                    elif x.op == 'call':
                        cc = x.x['callee']
                        cn = cc[1] if cc[0] == 'g' else None
                        for k, a in enumerate(x.args):
                            if not rules.is_ptr(mod, a[0]):
                                continue
                            o = pf.val_origin(a) or ()
                            for z in o:
                                if not z.startswith('alloca:'):
                                    continue
                                may_write = True
                                if cn in mod.functions:
                                    cpf = facts.get(cn)
                                    pn = mod.functions[cn].params[k][1] if k < len(mod.functions[cn].params) else None
                                    may_write = False
                                    for y in mod.functions[cn].instrs():
                                        if y.op == 'store' and cpf is not None:
                                            oo = cpf.val_origin(y.args[1]) or ()
                                            # -O0: the parameter is spilled to a slot first; the slot's recorded origin is the parameter
                                            if any(q == 'param:%s' % pn for q in oo):
                                                may_write = True
                                        elif y.op == 'call':
                                            yc = y.x['callee']
                                            if yc[0] == 'g' and not yc[1].startswith('llvm.dbg'):
                                                for ya in y.args:
                                                    if rules.is_ptr(mod, ya[0]) and cpf is not None and \
                                                            any(q == 'param:%s' % pn for q in (cpf.val_origin(ya) or ())):
                                                        may_write = True
                                # the nested call may at least read the variable it is handed
                                r.add(z[7:])
                                if may_write:
                                    w[z[7:]] = cn or 'an indirect callee'
                reads.append(r)
                writes.append(w)
            for i, w in enumerate(writes):
                for var, callee in w.items():
                    for j, r in enumerate(reads):
                        if var in r and i != j:
                            l = mod.loc(ins.dbg)
                            out.setdefault(name, []).append(
                                'operand %d of the %s at line %s uses the local variable %%%s (directly or through a nested call '
                                'that is handed its address) while operand %d calls %s with '
                                'its address (and %s may modify it): the order of evaluation of function arguments and of operands is unspecified '
                                '- clang evaluates left to right, GCC right to left - so the compiled behaviour depends on the '
                                'compiler' % (j, 'call' if ins.op == 'call' else "'%s' expression" % ins.op, l[1] if l else '?', var, i,
                                              callee, callee))
    return out


def bitfield_promotion_hazards(mod):
    """{function: [text]}: arithmetic on a bit-field wider than `int` (`struct { uint64_t id : 48; }`, `x.id << 16`):
    GCC evaluates the expression in the bit-field's own width (48 bits), clang promotes to the declared type (64 bits),
    so the two compilers compute different values whenever the result needs more bits than the field has"""
    out = {}
    for name, fn in mod.functions.items():
        defs = {}
        for ins in fn.instrs():
            if ins.dest is not None:
                defs[ins.dest] = ins
        for ins in fn.instrs():
            if ins.op not in ('shl', 'mul', 'add', 'sub'):
                continue
            for a in ins.args:
                if a[1][0] != 'r':
                    continue
                d = defs.get(a[1][1])
                if d is None:
                    continue
                k = None
                # clang reads a wide bit-field either through an integer of the storage width (i40/i48/i56, then zext) or
                # as `%bf.clear = and i64 %bf.load, 2^k - 1`
                if d.op in ('zext', 'sext') and d.args[0][1][0] == 'r':
                    t = mod.resolve(d.args[0][0])
                    if t[0] == 'i' and 32 < t[1] < 64 and str(d.args[0][1][1]).startswith('bf.'):
                        k = t[1]
                elif d.op == 'and' and str(d.dest).startswith('bf.'):
                    for o in d.args:
                        if o[1][0] == 'c':
                            m = o[1][1]
                            if m > 0 and (m & (m + 1)) == 0 and 32 < m.bit_length() < 64:
                                k = m.bit_length()
                if k is None:
                    continue
                l = mod.loc(ins.dbg)
                out.setdefault(name, []).append(
                    "the '%s' at line %s computes with a %d-bit bit-field value: GCC evaluates such an expression in %d "
                    'bits, clang (whose code is analysed here) in the declared 64-bit type, so the result differs between the '
                    'compilers whenever it does not fit the bit-field' % (ins.op, l[1] if l else '?', k, k))
    return out


def macro_shadows(mod, repo=None):
    """{library function: (header, line)} for every preprocessor macro in a public header - in whatever conditional
    branch - that has the name of a function the library defines: the consumer's translation unit then does not call
    the analysed function at all (whatever `#ifdef __OPTIMIZE__` / NDEBUG / language guard selects the macro)"""
    import glob
    import os
    from . import build
    repo = repo or build.REPO
    out = {}
    # functions the library exports from its own source files (a `static inline` helper that lives in a header is its
    # own definition, not a shadow of something else)
    exported = set()
    for n, f in mod.functions.items():
        if any(l in ('internal', 'private', 'available_externally', 'linkonce_odr', 'linkonce') for l in getattr(f, 'linkage', ())):
            continue
        loc = mod.fn_loc(n)
        if loc and loc[0] and '/include/' in loc[0]:
            continue
        exported.add(n)
    for path in sorted(glob.glob(os.path.join(repo, 'include', '**', '*.h'), recursive=True)):
        try:
            text = open(path, errors='replace').read()
        except OSError:
            continue
        text = text.replace('\\\n', ' ')
        for m in re.finditer(r'^[ \t]*#[ \t]*define[ \t]+(\w+)', text, re.M):
            if m.group(1) in exported:
                out.setdefault(m.group(1), (os.path.relpath(path, repo), text.count('\n', 0, m.start()) + 1, 'macro'))
        # a function *definition* in a header (extern inline / gnu_inline / static inline under some #if) with the name
        # of a library function: callers that see it run that body, not the library's
        nocomment = re.sub(r'/\*.*?\*/', lambda mm: '\n' * mm.group(0).count('\n'), text, flags=re.S)
        nocomment = re.sub(r'//[^\n]*', '', nocomment)
        for m in re.finditer(r'\b(\w+)\s*\((?:[^;{}()]|\([^()]*\))*\)\s*\{', nocomment):
            if m.group(1) in exported:
                out.setdefault(m.group(1), (os.path.relpath(path, repo), nocomment.count('\n', 0, m.start()) + 1, 'inline definition'))
    return out


_HDR_CACHE = {}


def header_alignment_promises(mod, repo=None):
    """{function: (N, header)} for `__attribute__((assume_aligned(N)))` / `alloc_align` on a prototype in a public
    header.  At -O0 the attribute leaves no trace on the definition; it acts at the call sites in the consumer's unit"""
    import glob
    import os
    import subprocess
    from . import build
    repo = repo or build.REPO
    inc = os.path.join(repo, 'include')
    out = {}
    if ('align', repo) in _HDR_CACHE:
        for names, val in _HDR_CACHE[('align', repo)]:
            for nm in names:
                if nm in mod.functions:
                    out.setdefault(nm, val)
                    break
        return out
    raw = []
    for path in sorted(glob.glob(os.path.join(inc, '**', '*.h'), recursive=True)):
        p = subprocess.run([build.CLANG, '-E', '-P', '-x', 'c', '-std=gnu99', '-w', '-I', inc, path], stdout=subprocess.PIPE,
                           stderr=subprocess.PIPE, universal_newlines=True)
        if p.returncode != 0:
            continue
        for chunk in re.split(r'[;{}]', p.stdout):
            m = re.search(r'__attribute__\s*\(\(.*?\b(assume_aligned|__assume_aligned__|alloc_align|__alloc_align__)\s*\(\s*([^,)]+)', chunk, re.S)
            if not m:
                continue
            try:
                n = int(eval(m.group(2).strip(), {'__builtins__': {}}, {}))
            except Exception:
                n = None
            decl = re.sub(r'__attribute__\s*\(\((?:[^()]|\([^()]*\))*\)\)', ' ', chunk)
            names = [fm.group(1) for fm in re.finditer(r'\b(\w+)\s*\(', decl)]
            raw.append((names, (n, os.path.relpath(path, repo), m.group(1).strip('_'))))
    _HDR_CACHE[('align', repo)] = raw
    return header_alignment_promises(mod, repo)


def closure(mod, fnames):
    """the given functions and everything they (transitively) call inside the module"""
    seen = set()
    work = [f for f in fnames if f in mod.functions]
    while work:
        f = work.pop()
        if f in seen:
            continue
        seen.add(f)
        for ins in mod.functions[f].instrs():
            if ins.op == 'call':
                c = ins.x['callee']
                if c[0] == 'g' and c[1] in mod.functions and c[1] not in seen:
                    work.append(c[1])
    return seen


MEMORY_KINDS = ('const-promise', 'pure-promise', 'macro-shadow', 'evaluation-order', 'bitfield-promotion')
NULL_KINDS = ('nonnull-param', 'dereferenceable-param', 'nonnull-return', 'macro-shadow')
ALIGN_KINDS = ('aligned-return', 'aligned-param')


def report(ctx, res, fnames, kinds, tag=''):
    """add a violation for every broken promise of one of `kinds` on the functions `fnames` or their callees"""
    from . import fieldchecks as FC
    table = getattr(ctx, '_promises', None)
    if table is None:
        table = ctx._promises = scan(ctx.mod, open(ctx.ll_path).read())
    fs = closure(ctx.mod, fnames)
    res.count('functions whose promise attributes (const/pure/nonnull/aligned) were compared with their bodies' + tag, len(fs))
    n = 0
    for f in sorted(fs):
        for kind, text in table.get(f, ()):
            if kind.split(':')[0] in kinds:
                n += 1
                res.violation('promise:%s:%s%s' % (f, kind, tag), '%s: %s' % (FC.fnloc(ctx, f), text))
    if not n:
        res.ok()
    # code of these functions' files (or of a public header) that no analysed configuration compiles
    from . import coverage
    dead = coverage.dead_lines()
    if dead and not tag:
        files = set()
        for f in fs:
            l = ctx.mod.fn_loc(f)
            if l and l[0]:
                files.add(FC.rel(l[0]))
        for path, lines in sorted(dead.items()):
            if path in files or path.startswith('include/'):
                # not a verdict: conditional code for other compilers / language levels is normal and mostly harmless.  It
                # is stated so that "holds" is read as "holds for the configurations analysed".
                msg = ('%s: %d line(s) of code are compiled in none of the analysed configurations (first: line %d `%s`) - a '
                       'branch of a preprocessor conditional on the compiler, the optimisation mode, the language level or the '
                       'target that only other builds take; the verdict does not cover those builds'
                       % (path, len(lines), lines[0][0], lines[0][1][:80]))
                if msg not in res.notes:
                    res.notes.append(msg)
                res.extra.setdefault('code not compiled in any analysed configuration', {})[path] = [n for n, _ in lines][:50]
    cs = coverage.compiler_specific()
    if cs and not tag:
        files = set()
        for f in fs:
            l = ctx.mod.fn_loc(f)
            if l and l[0]:
                files.add(FC.rel(l[0]))
        for path, items in sorted(cs.items()):
            if path in files or path.startswith('include/'):
                msg = ('%s:%d uses %s - the two compilers build different programs from this source, and only clang\'s is '
                       'analysed here; the verdict does not cover GCC builds of these lines' % (path, items[0][0], items[0][1]))
                if msg not in res.notes:
                    res.notes.append(msg)
                res.extra.setdefault('constructs GCC and clang interpret differently', {})[path] = [n for n, _ in items][:50]
    return n
