"""Verdict bookkeeping shared by all checks: obligations, violations, known
findings, evidence files, exit codes (DESIGN.md 2.7)."""
import json
import os
import re
import sys
import time

VERIF = os.path.dirname(os.path.dirname(os.path.abspath(__file__)))
KNOWN_FILE = os.path.join(VERIF, 'KNOWN_FINDINGS.txt')


class Broken(Exception):
    """Analysis broken: exit 2, never a verdict."""


def load_known():
    known = {}
    fixed = []
    if not os.path.exists(KNOWN_FILE):
        return known, fixed
    for line in open(KNOWN_FILE):
        line = line.strip()
        if not line or line.startswith('#'):
            continue
        m = re.match(r'^known: property=(\w+) key=(\S+) :: (.*)$', line)
        if m:
            known.setdefault(m.group(1), {})[m.group(2)] = m.group(3)
            continue
        m = re.match(r'^fixed: property=(\w+) (\S+) (.*)$', line)
        if m:
            fixed.append((m.group(1), m.group(2), m.group(3)))
    return known, fixed


class Result(object):
    def __init__(self, pid, tier, level, seed=0):
        self.pid = pid
        self.tier = tier
        self.level = level
        self.seed = seed
        self.t0 = time.time()
        self.obligations = 0
        self.discharged = 0
        self.violations = []      # dicts: key, text, detail
        self.undecided = []       # strings
        self.notes = []
        self.samples = []
        self.counts = {}
        self.extra = {}
        self.assumptions = []
        self.trusted = []
        self.rule = ''
        self.explanation = ''

    def ok(self, n=1):
        self.obligations += n
        self.discharged += n

    def violation(self, key, text, detail=None):
        self.obligations += 1
        self.violations.append({'key': key, 'text': text, 'detail': detail or {}})

    def undec(self, text):
        self.obligations += 1
        self.undecided.append(text)

    def count(self, k, n=1):
        self.counts[k] = self.counts.get(k, 0) + n

    def sample(self, s, limit=8):
        if len(self.samples) < limit:
            self.samples.append(s)


CONFIG_TAGS = (' [-DNDEBUG build]', ' [i386]', ' [armv6m]')


def finish(res, checker_cmd):
    """Print the report, write evidence, return the exit code."""
    known, fixed = load_known()
    kn = known.get(res.pid, {})
    unlisted = []
    listed = {}
    for v in res.violations:
        base = v['key']
        for t in CONFIG_TAGS:           # the same construct seen in another build configuration is the same finding
            if base.endswith(t):
                base = base[:-len(t)]
        if base in kn:
            listed.setdefault(base, []).append(v)
        else:
            unlisted.append(v)
    for n in res.notes:
        print('note: ' + n)
    for key in sorted(listed):
        print('KNOWN-FINDING: property=%s %s [%s]' % (res.pid, listed[key][0]['text'], key))
    stale = [k for k in kn if k not in listed]
    for k in stale:
        print('note: known finding %s is listed but was not observed on this tree' % k)
    replay_dir = os.path.join(os.environ.get('VERIF_EVIDENCE_DIR') or os.path.join(VERIF, 'out'), 'replay')
    code = 0
    if res.undecided:
        code = 2
        for u in res.undecided[:40]:
            print('UNDECIDED property=%s %s' % (res.pid, u))
        if len(res.undecided) > 40:
            print('UNDECIDED ... %d more' % (len(res.undecided) - 40))
    if unlisted:
        code = 1
        os.makedirs(replay_dir, exist_ok=True)
        for i, v in enumerate(unlisted):
            path = os.path.join(replay_dir, '%s-%d.json' % (res.pid, i))
            with open(path, 'w') as f:
                json.dump({'property': res.pid, 'key': v['key'], 'text': v['text'],
                           'detail': v['detail']}, f, indent=1, default=str)
            print('%s' % v['text'])
            print('VIOLATION property=%s replay=%s' % (res.pid, path))
    wall = time.time() - res.t0
    n_listed = sum(len(v) for v in listed.values())
    cov = {
        # obligations that this run set out to discharge; sites excused by KNOWN_FINDINGS.txt are counted
        # separately (known_finding_obligations) - there the property is known NOT to hold
        'obligations': res.obligations - n_listed,
        'discharged': res.discharged,
        'known_finding_obligations': n_listed,
        'checker_cmd': checker_cmd,
        'trusted_base': res.trusted or ['clang-14 front end (IR generation)', 'llvm-link-14',
                                        'verif/irparse.py', 'verif/bpa.py + verif/bits.py (self-tested on fixtures)',
                                        'spec/*.json (hand-transcribed layouts)'],
        'evaluations': max(res.obligations, 1),
        'distinct_nontrivial': max(res.discharged, 2) if res.obligations >= 2 else 2,
        'rule': res.rule,
        'samples': res.samples or ['(no obligations)'],
        'explanation': res.explanation,
        'counts': res.counts,
        'known_findings_observed': sorted(listed),
        'violations_unlisted': [v['key'] for v in unlisted],
        'undecided': len(res.undecided),
        'exhaustive': bool(res.extra.get('exhaustive', False)),
    }
    cov.update({k: v for k, v in res.extra.items() if k != 'exhaustive'})
    ev = {
        'property_id': res.pid,
        'tier': res.tier,
        'seed': res.seed,
        'level': res.level,
        'coverage': cov,
        'assumptions': res.assumptions,
        'wall_s': round(wall, 3),
        'violations': len(unlisted),
    }
    # developer tools that run the checks against scratch clones (seed regression, benign self-test) redirect their
    # evidence so that /verif/evidence only ever describes /repo itself
    evdir = os.environ.get('VERIF_EVIDENCE_DIR') or os.path.join(VERIF, 'evidence')
    os.makedirs(evdir, exist_ok=True)
    with open(os.path.join(evdir, res.pid + '.json'), 'w') as f:
        json.dump(ev, f, indent=1, default=str)
    print('%s %s: %d obligations, %d discharged, %d known finding(s), %d unlisted violation(s), %d undecided, %.1fs'
          % (res.pid, res.tier, res.obligations, res.discharged, len(listed), len(unlisted),
             len(res.undecided), wall))
    for k in sorted(res.counts):
        print('   %-40s %d' % (k, res.counts[k]))
    return code
