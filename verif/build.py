"""Front end: turn /repo's current working tree into LLVM IR and ASTs.

Nothing here executes code from /repo; clang-14 is used as a front end only
(-emit-llvm / -fsyntax-only) and llvm-link-14 to merge units.
"""
import os
import re
import shutil
import subprocess
import sys
import tempfile
from concurrent.futures import ThreadPoolExecutor

REPO = os.environ.get('VERIF_REPO', '/repo')
VERIF = os.path.dirname(os.path.dirname(os.path.abspath(__file__)))
CLANG = 'clang-14'
LLVM_LINK = 'llvm-link-14'
STUBS = os.path.join(VERIF, 'stubs', 'libc')

TARGETS = {
    'le': [],
    'be': ['--target=powerpc64-unknown-linux-gnu', '-nostdlibinc', '-isystem', STUBS],
    'be32': ['--target=mips-unknown-linux-gnu', '-nostdlibinc', '-isystem', STUBS],
    'le32': ['--target=i386-unknown-linux-gnu', '-nostdlibinc', '-isystem', STUBS],
    # little-endian core without unaligned access (Cortex-M0): __arm__, __ARM_ARCH_6M__, no __ARM_FEATURE_UNALIGNED,
    # plain char unsigned - the configuration `#ifdef`s for strict-alignment targets select
    'le32s': ['--target=armv6m-none-eabi', '-nostdlibinc', '-isystem', STUBS],
    # big-endian host that traps on misaligned accesses (__sparc__)
    'be32s': ['--target=sparc-unknown-linux-gnu', '-nostdlibinc', '-isystem', STUBS],
}


class BuildError(Exception):
    """The tree cannot be turned into IR: analysis broken (exit 2)."""


_scratch_dirs = []


def scratch():
    base = os.environ.get('VERIF_SCRATCH_BASE') or tempfile.gettempdir()
    d = tempfile.mkdtemp(prefix='o1722v-', dir=base)
    _scratch_dirs.append(d)
    return d


def cleanup():
    while _scratch_dirs:
        shutil.rmtree(_scratch_dirs.pop(), ignore_errors=True)


import atexit
atexit.register(cleanup)


def run(cmd, **kw):
    p = subprocess.run(cmd, stdout=subprocess.PIPE, stderr=subprocess.PIPE,
                       universal_newlines=True, **kw)
    return p.returncode, p.stdout, p.stderr


def cmake_targets(repo=None):
    """Parse CMakeLists.txt: {target: {'kind','sources','includes','links'}}."""
    repo = repo or REPO
    path = os.path.join(repo, 'CMakeLists.txt')
    try:
        txt = open(path).read()
    except OSError as e:
        raise BuildError('cannot read %s: %s' % (path, e))
    txt = re.sub(r'#[^\n]*', '', txt)
    out = {}
    for m in re.finditer(r'add_(library|executable)\s*\(\s*([-\w]+)([^)]*)\)', txt):
        kind, name, rest = m.group(1), m.group(2), m.group(3)
        toks = re.findall(r'"[^"]*"|\S+', rest)
        srcs = [t.strip('"') for t in toks if t.strip('"').endswith('.c')]
        lk = 'exe'
        if kind == 'library':
            lk = 'shared' if 'SHARED' in toks else 'static'
        out[name] = {'kind': lk, 'sources': srcs, 'includes': [], 'links': []}
    for m in re.finditer(r'target_include_directories\s*\(\s*([-\w]+)([^)]*)\)', txt):
        name, rest = m.group(1), m.group(2)
        if name not in out:
            continue
        for t in re.findall(r'"[^"]*"|\S+', rest):
            t = t.strip('"')
            mm = re.match(r'\$<BUILD_INTERFACE:\$\{CMAKE_CURRENT_SOURCE_DIR\}/(.*)>', t)
            if mm:
                out[name]['includes'].append(mm.group(1))
            elif t in ('PRIVATE', 'PUBLIC', 'INTERFACE') or t.startswith('$<'):
                continue
            else:
                out[name]['includes'].append(t)
    for m in re.finditer(r'target_link_libraries\s*\(\s*([-\w]+)([^)]*)\)', txt):
        name, rest = m.group(1), m.group(2)
        if name in out:
            out[name]['links'] = rest.split()
    std = re.search(r'CMAKE_C_STANDARD\s+(\d+)', txt)
    out['__std__'] = 'gnu' + (std.group(1) if std else '99')
    return out


LIB_TARGETS = ('open1722', 'open1722custom')


def library_units(repo=None):
    repo = repo or REPO
    t = cmake_targets(repo)
    units = []
    for lib in LIB_TARGETS:
        if lib not in t:
            raise BuildError('CMake target %s not found in CMakeLists.txt' % lib)
        for s in t[lib]['sources']:
            units.append((lib, s))
    if len(units) < 2:
        raise BuildError('no library sources found in CMakeLists.txt')
    return units, t['__std__']


def compile_units(srcs, outdir, target='le', std='gnu99', includes=None, defs=(),
                  opt='-O0', debug=True, repo=None, extra=()):
    """srcs: list of absolute source paths. Returns list of .bc paths (same
    order).  Raises BuildError with the compiler output on failure."""
    repo = repo or REPO
    includes = includes if includes is not None else [os.path.join(repo, 'include')]
    os.makedirs(outdir, exist_ok=True)
    jobs = []
    for k, s in enumerate(srcs):
        out = os.path.join(outdir, '%03d_%s.%s.bc' % (k, os.path.basename(s).replace('.c', ''), target))
        cmd = [CLANG, opt, '-std=' + std, '-emit-llvm', '-c', '-UNDEBUG',
               '-fno-discard-value-names', '-Wno-everything']
        if opt != '-O0':
            cmd += ['-Xclang', '-disable-llvm-passes']
        if debug:
            cmd.append('-g')
        cmd += TARGETS[target]
        for i in includes:
            cmd += ['-I', i]
        for d in defs:
            cmd.append('-D' + d)
        cmd += list(extra)
        cmd += [s, '-o', out]
        jobs.append((cmd, out, s))

    def one(j):
        rc, so, se = run(j[0])
        return rc, se, j

    with ThreadPoolExecutor(max_workers=16) as ex:
        res = list(ex.map(one, jobs))
    for rc, se, j in res:
        if rc != 0:
            raise BuildError('clang failed on %s (%s):\n%s' % (j[2], target, se[-4000:]))
    return [j[1] for j in jobs]


def link_ll(bcs, out):
    rc, so, se = run([LLVM_LINK, '-S', '-o', out] + list(bcs))
    if rc != 0:
        raise BuildError('llvm-link failed:\n' + se[-4000:])
    return out


def build_library_ir(target='le', harness_srcs=(), workdir=None, repo=None, defs=(), suffix='', debug=True,
                     opt='-O0', extra=()):
    """Compile every library unit (+ optional harness C files) for `target`,
    link, and return (path of linked .ll, list of (lib, relpath))."""
    repo = repo or REPO
    workdir = workdir or scratch()
    units, std = library_units(repo)
    srcs = [os.path.join(repo, s) for (_, s) in units]
    for s in srcs:
        if not os.path.exists(s):
            raise BuildError('library source listed in CMakeLists.txt is missing: ' + s)
    bcs = compile_units(srcs + list(harness_srcs), os.path.join(workdir, 'bc_' + target + suffix),
                        target=target, std=std, repo=repo, defs=defs, debug=debug, opt=opt, extra=extra)
    out = os.path.join(workdir, 'lib_%s%s.ll' % (target, suffix))
    try:
        link_ll(bcs, out)
    except BuildError as e:
        if 'multiply defined' not in str(e):
            raise
        # the same external symbol is defined in both shared libraries.  That links and loads fine - and at run time
        # every reference, in either library, binds to the definition of the library that comes first in the link
        # line (ELF symbol interposition; the project links `open1722 ... open1722custom`).  Model exactly that: link
        # each library on its own, then let the first library's definitions override the second's.
        per = {}
        for (lib, _), bc in zip(units, bcs):
            per.setdefault(lib, []).append(bc)
        libs = [l for l in LIB_TARGETS if l in per]
        parts = []
        for lib in libs:
            pl = os.path.join(workdir, 'only_%s_%s%s.bc' % (lib, target, suffix))
            rc, so, se = run([LLVM_LINK, '-o', pl] + per[lib])
            if rc != 0:
                raise BuildError('llvm-link failed inside library %s:\n%s' % (lib, se[-3000:]))
            parts.append(pl)
        extra_bcs = bcs[len(units):]
        cmd = [LLVM_LINK, '-S', '-o', out] + list(reversed(parts[1:])) + extra_bcs
        for pth in parts[:1]:
            cmd += ['--override', pth]
        rc, so, se = run(cmd)
        if rc != 0:
            raise BuildError('llvm-link failed:\n' + se[-4000:])
        INTERPOSED.append(str(e).strip().split('\n')[-1][-200:])
    return out, units


INTERPOSED = []


def per_unit_ll(target='le', workdir=None, repo=None):
    """Un-linked, per-unit textual IR (for rules that want file-accurate
    instruction inventories)."""
    repo = repo or REPO
    workdir = workdir or scratch()
    units, std = library_units(repo)
    srcs = [os.path.join(repo, s) for (_, s) in units]
    bcs = compile_units(srcs, os.path.join(workdir, 'pu_' + target), target=target,
                        std=std, repo=repo)
    outs = []
    for b in bcs:
        o = b[:-3] + '.ll'
        link_ll([b], o)
        outs.append(o)
    return list(zip(units, outs))


OPT = 'opt-14'


def build_example_ir(target_name, workdir=None, repo=None):
    """SSA-form IR (mem2reg) of one example executable: its own sources plus the
    static example library it links.  Library functions stay external."""
    repo = repo or REPO
    workdir = workdir or scratch()
    t = cmake_targets(repo)
    if target_name not in t or t[target_name]['kind'] != 'exe':
        raise BuildError('executable target %s not found in CMakeLists.txt' % target_name)
    srcs = list(t[target_name]['sources'])
    for l in t[target_name]['links']:
        if l in t and t[l]['kind'] == 'static':
            srcs += t[l]['sources']
    incs = [os.path.join(repo, i) for i in (t[target_name]['includes'] or ['examples', 'include'])]
    paths = [os.path.join(repo, s) for s in srcs]
    for p in paths:
        if not os.path.exists(p):
            raise BuildError('example source %s is missing' % p)
    out = os.path.join(workdir, 'ex_' + target_name)
    bcs = compile_units(paths, out, target='le', std=t['__std__'], includes=incs, repo=repo,
                        extra=['-Xclang', '-disable-O0-optnone'])
    linked = os.path.join(out, 'linked.bc')
    rc, so, se = run([LLVM_LINK, '-o', linked] + bcs)
    if rc != 0:
        raise BuildError('llvm-link failed for %s:\n%s' % (target_name, se[-2000:]))
    ll = os.path.join(out, 'ssa.ll')
    rc, so, se = run([OPT, '-passes=mem2reg', '-S', linked, '-o', ll])
    if rc != 0:
        raise BuildError('opt mem2reg failed for %s:\n%s' % (target_name, se[-2000:]))
    return ll, srcs
