"""Analysis context: IR of the current tree for one target, the frozen specs,
and the compiler-evaluated facts (enumerator values, sizes, offsets, macros)."""
import json
import os

from . import build, irparse
from .report import Broken

VERIF = os.path.dirname(os.path.dirname(os.path.abspath(__file__)))


def load_spec(name):
    with open(os.path.join(VERIF, 'spec', name)) as f:
        return json.load(f)


class Ctx(object):
    def __init__(self, target='le', workdir=None, defs=(), suffix='', opt='-O0', extra=()):
        self.target = target
        self.defs = tuple(defs)
        self.suffix = suffix
        self.opt = opt
        self.extra = tuple(extra)
        self.workdir = workdir or build.scratch()
        self.spec = load_spec('formats.json')
        self.formats = {f['format']: f for f in self.spec['formats']}
        try:
            path, units = build.build_library_ir(target, workdir=self.workdir, defs=self.defs, suffix=suffix, opt=opt, extra=extra)
        except build.BuildError as e:
            raise Broken(str(e))
        self.units = units
        self.ll_path = path
        try:
            self.mod = irparse.parse_module(open(path).read(), path)
        except irparse.ParseError as e:
            raise Broken('cannot parse linked IR: %s' % e)
        self.gcache = {}
        self._facts = None

    # ---- compiler-evaluated facts -----------------------------------------
    def facts(self):
        if self._facts is not None:
            return self._facts
        d = os.path.join(self.workdir, 'facts_' + self.target)
        os.makedirs(d, exist_ok=True)
        srcs = []
        for f in self.spec['formats']:
            lines = ['#include <stddef.h>', '#include "%s"' % f['header'],
                     'typedef unsigned long long verif_u64;']
            fmt = f['format']
            for x in f['fields']:
                lines.append('const verif_u64 verif_e_%s = (verif_u64)(%s);' % (x['enum'], x['enum']))
            for x in f['fields']:
                if x.get('getter'):
                    # is the dedicated getter's declared return type unsigned?  (the *caller* widens the result)
                    lines.append('const verif_u64 verif_retuns_%s = (((__typeof__(%s((%s*)0)))-1) > 0);'
                                 % (x['getter'], x['getter'], f['type']))
            lines.append('const verif_u64 verif_max_%s = (verif_u64)(%s);' % (fmt, f['enum_max']))
            lines.append('const verif_u64 verif_sizeof_%s = sizeof(%s);' % (fmt, f['type']))
            lines.append('const verif_u64 verif_hdrarr_%s = sizeof(((%s*)0)->header);' % (fmt, f['type']))
            lines.append('const verif_u64 verif_payoff_%s = offsetof(%s, payload);' % (fmt, f['type']))
            lines.append('#ifdef %s' % f['len_macro'])
            lines.append('const verif_u64 verif_lenmacro_%s = (verif_u64)(%s);' % (fmt, f['len_macro']))
            # the macro used as an operand, WITHOUT parentheses of ours: an expansion that is not a primary
            # expression (`A + B`) changes value next to a tighter-binding operator
            lines.append('const verif_u64 verif_lenmacro_mul_%s = (verif_u64)(7 * %s * 3);' % (fmt, f['len_macro']))
            lines.append('const verif_u64 verif_lenmacro_div_%s = (verif_u64)(1000000 / %s);' % (fmt, f['len_macro']))
            lines.append('const verif_u64 verif_lenmacro_mod_%s = (verif_u64)(1000003 %% %s);' % (fmt, f['len_macro']))
            lines.append('const verif_u64 verif_lenmacro_neg_%s = (verif_u64)(1000 + - %s);' % (fmt, f['len_macro']))
            lines.append('#endif')
            p = os.path.join(d, 'facts_%s.c' % fmt)
            with open(p, 'w') as fh:
                fh.write('\n'.join(lines) + '\n')
            srcs.append(p)
        # layout of the descriptor type the generic walkers read (member order and widths are the library's business)
        lines = ['#include <stddef.h>', '#include "avtp/Defines.h"', 'typedef unsigned long long verif_u64;',
                 'const verif_u64 verif_desc_sizeof = sizeof(Avtp_FieldDescriptor_t);']
        for m in ('quadlet', 'offset', 'bits'):
            lines.append('const verif_u64 verif_desc_off_%s = offsetof(Avtp_FieldDescriptor_t, %s);' % (m, m))
            lines.append('const verif_u64 verif_desc_size_%s = sizeof(((Avtp_FieldDescriptor_t*)0)->%s);' % (m, m))
        p = os.path.join(d, 'facts__descriptor.c')
        with open(p, 'w') as fh:
            fh.write('\n'.join(lines) + '\n')
        srcs.append(p)
        try:
            _, std = build.library_units()
            bcs = build.compile_units(srcs, os.path.join(d, 'bc'), target=self.target, std=std, debug=False)
        except build.BuildError as e:
            raise Broken('the public API drifted from spec/formats.json (facts unit does not compile): %s' % e)
        facts = {}
        for bc in bcs:
            ll = bc[:-3] + '.ll'
            build.link_ll([bc], ll)
            m = irparse.parse_module(open(ll).read(), ll)
            for name, g in m.globals.items():
                if name.startswith('verif_') and g.init is not None and g.init[0] == 'c':
                    facts[name] = g.init[1] & ((1 << 64) - 1)
                elif name.startswith('verif_') and g.init is not None and g.init[0] == 'zero':
                    facts[name] = 0
        self._facts = facts
        self.mod.desc_layout = (facts['verif_desc_sizeof'],
                                {m: (facts['verif_desc_off_' + m], facts['verif_desc_size_' + m]) for m in ('quadlet', 'offset', 'bits')})
        return facts

    # ---- other build configurations --------------------------------------
    def config_variants(self):
        """CMake's Release, RelWithDebInfo and MinSizeRel configurations add
        -DNDEBUG.  If the library's code under -DNDEBUG differs from the default
        configuration (compared as metadata-free IR text), return
        [(tag, Ctx)] for it so that the caller decides the property for that
        configuration too; [] when the two are identical."""
        try:
            a, _ = build.build_library_ir(self.target, workdir=self.workdir, suffix='_cmpdef', debug=False)
            b, _ = build.build_library_ir(self.target, workdir=self.workdir, defs=('NDEBUG',), suffix='_cmpndebug',
                                          debug=False)
        except build.BuildError as e:
            raise Broken('the library does not compile with -DNDEBUG: %s' % e)

        def norm(path):
            out = []
            for l in open(path):
                if l.startswith((';', '!', 'source_filename')) or not l.strip():
                    continue
                out.append(l)
            return out
        if norm(a) == norm(b):
            return []
        v = Ctx(self.target, workdir=self.workdir, defs=('NDEBUG',), suffix='_ndebug')
        v._facts = self.facts()
        v.mod.desc_layout = self.mod.desc_layout
        return [(' [-DNDEBUG build]', v)]

    def enum_value(self, enumerator):
        k = 'verif_e_' + enumerator
        f = self.facts()
        if k not in f:
            raise Broken('enumerator %s not evaluated' % enumerator)
        return f[k]

    def fn(self, name):
        f = self.mod.functions.get(name)
        if f is None:
            raise Broken('function %s named in the spec is not defined by the library' % name)
        return f


def run_all_configs(run, tier, res, target='le', ilp32='always', strict=False):
    """Decide on the default configuration, on every other configuration
    whose code differs (see Ctx.config_variants) and on a little-endian ILP32
    target (i386: 32-bit long, size_t and pointers - `1UL << 32`, size_t
    arithmetic and pointer-sized casts behave differently there)."""
    ctx = Ctx(target)
    vs = ctx.config_variants()
    res.extra['build configurations analysed'] = ['default (x86-64, assertions on)'] + \
        (['-DNDEBUG (differs from default)'] if vs else ['-DNDEBUG: IR identical to default, nothing further to decide'])
    out = run(ctx, tier, res)
    for tag, v in vs:
        out = run(v, tier, res, tag=tag)
    if ilp32 == 'always' or (ilp32 == 'thorough' and tier == 'thorough'):
        # the second configuration differs from the first in everything a user's build may differ in: ILP32 target,
        # the front end in optimising mode (-O1 with the LLVM passes disabled: __OPTIMIZE__ is defined, object
        # lifetimes are marked, __builtin_constant_p survives as llvm.is.constant) and GCC's version macros
        # (clang reports __GNUC__ == 4 by default; code under `#if __GNUC__ >= 5` is GCC-only otherwise) and plain `char`
        # unsigned as on ARM, PowerPC, RISC-V (x86: signed)
        try:
            c32 = Ctx('le32', opt='-Os', extra=GCC_LIKE + NOT_CLANG, suffix='_gcclike')
        except Broken:
            # code for "GCC but not clang" that clang cannot compile (GCC-only builtins): keep clang's own identity
            c32 = Ctx('le32', opt='-Os', extra=GCC_LIKE, suffix='_gcclike2')
        if c32.mod.ptr_bytes != 4 or c32.mod.big_endian:
            raise Broken('target le32 is not a little-endian 32-bit target')
        res.extra['build configurations analysed'].append('i386 (little-endian, ILP32), front end in -Os mode (passes disabled) with lifetime markers, '
                                                          '__GNUC__ = 12 and no __clang__, plain char unsigned')
        out = run(c32, tier, res, tag=' [i386]')
    if strict:
        # a little-endian core without unaligned access (ARMv6-M): byte-wise fallbacks under `#if __arm__ &&
        # !__ARM_FEATURE_UNALIGNED`, `__ARM_ARCH_6M__`, ... are compiled here and nowhere else
        cs = Ctx('le32s', suffix='_strict')
        if cs.mod.ptr_bytes != 4 or cs.mod.big_endian:
            raise Broken('target le32s is not a little-endian 32-bit target')
        res.extra['build configurations analysed'].append('armv6m (little-endian, ILP32, no unaligned access, plain char unsigned)')
        out = run(cs, tier, res, tag=' [armv6m]')
    return out


GCC_LIKE = ('-fgnuc-version=12.2.0', '-funsigned-char')
# `#if defined(__GNUC__) && !defined(__clang__)` selects code for real GCC: compile that branch too where clang can
NOT_CLANG = ('-U__clang__', '-U__clang_major__', '-U__clang_minor__', '-U__clang_patchlevel__', '-U__clang_version__')
