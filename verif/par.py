"""Fork-based parallel map: the parsed module is built once in the parent and
shared copy-on-write with the workers."""
import multiprocessing as mp
import os
import traceback

_FN = None


def _call(i_arg):
    i, arg = i_arg
    try:
        return i, _FN(arg), None
    except Exception:  # report, never swallow
        return i, None, traceback.format_exc()


def pmap(fn, items, procs=None):
    global _FN
    items = list(items)
    if not items:
        return []
    procs = procs or min(16, os.cpu_count() or 1)
    if procs <= 1 or len(items) < 4 or os.environ.get('VERIF_SERIAL'):
        return [fn(a) for a in items]
    _FN = fn
    ctx = mp.get_context('fork')
    out = [None] * len(items)
    chunk = max(1, len(items) // (procs * 8))
    with ctx.Pool(procs) as pool:
        for i, r, err in pool.imap_unordered(_call, list(enumerate(items)), chunksize=chunk):
            if err:
                pool.terminate()
                raise RuntimeError('worker failed on item %r:\n%s' % (items[i], err))
            out[i] = r
    return out
