"""Fork-based parallel map: the parsed module is built once in the parent and
shared copy-on-write with the workers."""
import multiprocessing as mp
import os
import traceback

_FN = None
WORKER_PIDS = set()


def _worker_init():
    # die with the parent (the watchdog of ./check, an external timeout): a worker must never outlive the run and keep
    # the output pipe open
    try:
        import ctypes
        import signal
        ctypes.CDLL(None).prctl(1, int(signal.SIGKILL), 0, 0, 0)     # PR_SET_PDEATHSIG
    except Exception:
        pass


def kill_workers():
    import signal
    for pid in list(WORKER_PIDS):
        try:
            os.kill(pid, signal.SIGKILL)
        except OSError:
            pass
    WORKER_PIDS.clear()


def _call(i_arg):
    i, arg = i_arg
    try:
        return i, _FN(arg), None
    except Exception:  # report, never swallow
        return i, None, traceback.format_exc()


def pmap(fn, items, procs=None):
    global _FN
    items = list(items)
    if not items:
        return []
    procs = procs or min(16, os.cpu_count() or 1)
    if procs <= 1 or len(items) < 4 or os.environ.get('VERIF_SERIAL'):
        return [fn(a) for a in items]
    _FN = fn
    ctx = mp.get_context('fork')
    out = [None] * len(items)
    chunk = max(1, len(items) // (procs * 8))
    with ctx.Pool(procs, initializer=_worker_init) as pool:
        pids = set(p.pid for p in getattr(pool, '_pool', ()))
        WORKER_PIDS.update(pids)
        for i, r, err in pool.imap_unordered(_call, list(enumerate(items)), chunksize=chunk):
            if err:
                pool.terminate()
                raise RuntimeError('worker failed on item %r:\n%s' % (items[i], err))
            out[i] = r
        WORKER_PIDS.difference_update(pids)
    return out
