"""Which lines of the library's sources and public headers does *no* analysed
configuration compile?

Every verdict of the IR checks is about code the front end actually produced
IR for.  A branch of a preprocessor conditional that is false in all analysed
configurations - `#if defined(__GNUC__) && !defined(__clang__)`,
`#if __has_attribute(scalar_storage_order)`, `#ifdef __OPTIMIZE_SIZE__`,
`#ifdef __sparc__` - is code some users run and nothing here has looked at.
That is not a violation; it is a part of the function the property is *not
decided* for, and the checks say so (exit 2) instead of reporting "holds".

dead_lines() -> {repo-relative file: [(line, text)]}"""
import os
import re
import subprocess

from . import build

_CACHE = {}


def configurations():
    """flag sets of the configurations the IR checks analyse (ctx.run_all_configs, C13, C14)"""
    from .ctx import GCC_LIKE, NOT_CLANG
    return [
        ('x86-64', build.TARGETS['le'], []),
        ('x86-64 -DNDEBUG', build.TARGETS['le'], ['-DNDEBUG']),
        ('i386 gcc-like -Os', build.TARGETS['le32'], ['-Os'] + list(GCC_LIKE) + list(NOT_CLANG)),
        ('armv6m', build.TARGETS['le32s'], []),
        ('powerpc64', build.TARGETS['be'], []),
        ('powerpc64 gcc-like', build.TARGETS['be'], ['-fgnuc-version=12.2.0']),
        ('sparc', build.TARGETS['be32s'], []),
        ('mips gcc-like', build.TARGETS['be32'], ['-fgnuc-version=12.2.0', '-U__BIG_ENDIAN__']),
    ]


def _surviving(path, flags, std, inc, lang=('-x', 'c')):
    """{(file, line)} of the non-blank lines the preprocessor lets through"""
    cmd = [build.CLANG, '-E', '-dD', '-w'] + list(lang) + (['-std=' + std] if std else []) + ['-I', inc] + list(flags) + [path]
    p = subprocess.run(cmd, stdout=subprocess.PIPE, stderr=subprocess.PIPE, universal_newlines=True)
    if p.returncode != 0:
        return None
    out = set()
    cur, line = None, 0
    for l in p.stdout.split('\n'):
        m = re.match(r'# (\d+) "([^"]*)"', l)
        if m:
            line = int(m.group(1)) - 1
            cur = m.group(2)
            continue
        line += 1
        if l.strip() and cur:
            out.add((cur, line))
    return out


def _code_lines(path):
    """[(line, text)] of lines that hold code: not blank, not comment, not a preprocessor directive"""
    try:
        text = open(path, errors='replace').read()
    except OSError:
        return []
    text = re.sub(r'/\*.*?\*/', lambda m: re.sub(r'[^\n]', ' ', m.group(0)), text, flags=re.S)
    out = []
    cont = False
    indef = False
    for i, l in enumerate(text.split('\n'), 1):
        s = re.sub(r'//.*', '', l).strip()
        if cont:
            directive = True
        else:
            directive = s.startswith('#')
            indef = bool(re.match(r'#\s*define\b', s))
        cont = directive and s.endswith('\\')
        if not s or s in ('{', '}', '};', '*/'):
            continue
        if directive:
            # a macro definition is code as well (its first line; -dD shows it where it is alive)
            if indef and re.match(r'#\s*define\b', s):
                out.append((i, s))
            continue
        out.append((i, s))
    return out


def dead_lines(repo=None):
    repo = repo or build.REPO
    if repo in _CACHE:
        return _CACHE[repo]
    units, std = build.library_units(repo)
    inc = os.path.join(repo, 'include')
    srcs = [os.path.join(repo, s) for (_, s) in units]
    alive = set()
    from concurrent.futures import ThreadPoolExecutor
    jobs = [(s, list(tflags) + list(flags)) for (name, tflags, flags) in configurations() for s in srcs]
    with ThreadPoolExecutor(16) as ex:
        for sv in ex.map(lambda j: _surviving(j[0], j[1], std, inc), jobs):
            if sv:
                alive |= sv
    # headers are also seen by C++ consumers (the `extern "C"` lines)
    import glob
    hdrs = sorted(glob.glob(os.path.join(inc, '**', '*.h'), recursive=True))
    for h in hdrs:
        sv = _surviving(h, [], None, inc, lang=('-x', 'c++', '-std=c++17'))
        if sv:
            alive |= sv
        sv = _surviving(h, [], 'c99', inc)
        if sv:
            alive |= sv
    out = {}
    for f in srcs + hdrs:
        real = os.path.realpath(f)
        dead = [(n, t) for (n, t) in _code_lines(f)
                if (f, n) not in alive and (real, n) not in alive and (os.path.normpath(f), n) not in alive]
        if dead:
            out[os.path.relpath(f, repo)] = dead
    _CACHE[repo] = out
    return out


GCC_ONLY = [(r'scalar_storage_order', 'scalar_storage_order (attribute or pragma): GCC stores the marked fields in the requested '
             'byte order, clang ignores it'),
            (r'#\s*pragma\s+GCC\s+(optimize|target|push_options)', '#pragma GCC optimize/target: honoured by GCC only'),
            (r'__builtin_bswap128', '__builtin_bswap128: available in GCC 11+ only')]


def compiler_specific(repo=None):
    """{file: [(line, description)]}: constructs in live code that GCC and clang do not give the same meaning"""
    repo = repo or build.REPO
    key = ('cs', repo)
    if key in _CACHE:
        return _CACHE[key]
    import glob
    units, std = build.library_units(repo)
    files = [os.path.join(repo, s) for (_, s) in units] + sorted(glob.glob(os.path.join(repo, 'include', '**', '*.h'), recursive=True))
    out = {}
    for f in files:
        try:
            text = open(f, errors='replace').read()
        except OSError:
            continue
        text = re.sub(r'/\*.*?\*/', lambda m: re.sub(r'[^\n]', ' ', m.group(0)), text, flags=re.S)
        for i, l in enumerate(text.split('\n'), 1):
            l = re.sub(r'//.*', '', l)
            for rx, desc in GCC_ONLY:
                if re.search(rx, l):
                    out.setdefault(os.path.relpath(f, repo), []).append((i, desc))
    _CACHE[key] = out
    return out
