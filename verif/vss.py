"""Scenario builders and the reference codec for the VSS checks (C07, C08,
C10).  The reference follows examples/acf-vss/protocol_description/acf-vss.md:
big-endian integers / IEEE-754 bit patterns, 16-bit big-endian *byte* length
prefixes for interoperable paths, strings and arrays, elements in order."""
from . import bits as B
from . import bpa
from .bpa import Ptr, Region, NULL
from .report import Broken

PDU = 'pdu'
H = 12     # fixed VSS header (acf-vss.md: 1 quadlet + 64-bit timestamp)

# datatype code -> (name, element octets, kind)
DATATYPES = {
    0x00: ('uint8', 1, 'scalar'), 0x01: ('int8', 1, 'scalar'), 0x02: ('uint16', 2, 'scalar'), 0x03: ('int16', 2, 'scalar'),
    0x04: ('uint32', 4, 'scalar'), 0x05: ('int32', 4, 'scalar'), 0x06: ('uint64', 8, 'scalar'), 0x07: ('int64', 8, 'scalar'),
    0x08: ('bool', 1, 'scalar'), 0x09: ('float', 4, 'scalar'), 0x0A: ('double', 8, 'scalar'), 0x0B: ('string', 1, 'bytes'),
    0x80: ('uint8[]', 1, 'array'), 0x81: ('int8[]', 1, 'array'), 0x82: ('uint16[]', 2, 'array'), 0x83: ('int16[]', 2, 'array'),
    0x84: ('uint32[]', 4, 'array'), 0x85: ('int32[]', 4, 'array'), 0x86: ('uint64[]', 8, 'array'), 0x87: ('int64[]', 8, 'array'),
    0x88: ('bool[]', 1, 'array'), 0x89: ('float[]', 4, 'array'), 0x8A: ('double[]', 8, 'array'), 0x8B: ('string[]', 1, 'bytes'),
}
INTEROP, STATIC = 0, 1


def ptr_off(mod):
    # every VSS value struct is {uint16_t data_length; T* data}; llvm-link merges the
    # structurally identical IR types, so the layout is computed from the shape
    t = ('s', (('i', 16), ('p', ('i', 8))), False)
    return mod.field_offset(t, 1)[0], mod.sizeof(t)


def poke(mod, region, off, nbytes, value):
    """store an integer / bit-vector value of nbytes octets in host order"""
    bits = B.to_bits(value, nbytes * 8)
    for i in range(nbytes):
        chunk = B.norm(bits[8 * i:8 * i + 8])
        region.mem[off + (nbytes - 1 - i if mod.big_endian else i)] = chunk


def poke_ptr(mod, region, off, p):
    for i in range(mod.ptr_bytes):
        region.mem[off + i] = ('P', p, i) if p is not None else 0


def peek(mod, region, off, nbytes):
    """host-order value currently stored (symbolic initial content if unwritten)"""
    bs = [B.to_bits(region.get(off + i), 8) for i in range(nbytes)]
    if mod.big_endian:
        bs = bs[::-1]
    out = []
    for b in bs:
        out.extend(b)
    return B.norm(out)


def In(region, off):
    return tuple(('I', region, off, b) for b in range(8))


def host_elem_wire(mod, region, k, ew):
    """wire octets (msb first) of element k of a host array stored in `region`"""
    out = []
    for j in range(ew):
        hostbyte = k * ew + ((ew - 1 - j) if not mod.big_endian else j)
        out.append(In(region, hostbyte))
    return out


def be_bytes_of(value, nbytes):
    """big-endian octets of a value (int or bit tuple)"""
    bits = B.to_bits(value, nbytes * 8)
    return [B.norm(bits[8 * (nbytes - 1 - j):8 * (nbytes - j)]) for j in range(nbytes)]


def header_precondition(region, addr_mode, datatype):
    """pin addr_mode (header bits 19..20) and vss_datatype (octet 3); leave the rest symbolic"""
    b2 = list(In(region.name, 2))
    b2[4] = (addr_mode >> 1) & 1      # header bit 19 = octet 2 bit 4
    b2[3] = addr_mode & 1             # header bit 20 = octet 2 bit 3
    region.mem[2] = B.norm(b2)
    region.mem[3] = datatype & 0xff


def path_wire_len(addr_mode, plen):
    if addr_mode == STATIC:
        return 4
    if addr_mode == INTEROP:
        return 2 + plen
    return 0


def data_wire_len(code, count):
    """count = value octets for strings / raw, number of elements for arrays"""
    name, ew, kind = DATATYPES[code]
    if kind == 'scalar':
        return ew
    return 2 + count * ew


def expected_image_base(region_name, size, addr_mode, datatype):
    exp = [list(In(region_name, o)) for o in range(size)]
    if size > 3:
        exp[2][4] = (addr_mode >> 1) & 1
        exp[2][3] = addr_mode & 1
        exp[3] = list(B.to_bits(datatype & 0xff, 8))
    return exp


def compare_region(region, exp, upto=None):
    """-> ('ok'|'violation'|'undecided', text)"""
    from . import fieldchecks as FC
    n = len(exp) if upto is None else upto
    for o in range(n):
        act = region.mem.get(o)
        if act is None:
            actb = In(region.name, o) if region.kind == 'sym' else (B.UNDEF,) * 8
        elif isinstance(act, tuple) and act and act[0] == 'P':
            actb = (B.TOP,) * 8
        else:
            actb = B.to_bits(act, 8)
        e = tuple(B.to_bits(exp[o], 8)) if not isinstance(exp[o], (list, tuple)) or len(exp[o]) != 8 or isinstance(exp[o], int) \
            else tuple(exp[o])
        if actb == e:
            continue
        st, info = FC.compare_vec(actb, e, 8)
        if st == 'differs':
            return 'violation', 'octet %d of %s is %s, the reference says %s; witness: %s' % (
                o, region.name, B.fmt_vec(actb, 8), B.fmt_vec(e, 8), FC.fmt_env(info[1]))
        if st == 'unknown':
            return 'undecided', 'octet %d of %s could not be determined (%s)' % (o, region.name, B.fmt_vec(actb, 8))
    return 'ok', None
