/* replay harness: the real listener source with main renamed; new_packet() is fed through a socketpair */
#define main listener_main
#include "../../../repo/examples/acf-can/acf-can-listener.c"
#undef main
#include <sys/socket.h>
#include <signal.h>
#include <fcntl.h>
static void on_alarm(int s){ (void)s; fprintf(stderr,"REPLAY: new_packet() did not return within 2 s (zero acf_msg_length never advances)\n"); _exit(3);}    
int main(int argc,char**argv){
  int sp[2]; socketpair(AF_UNIX,SOCK_DGRAM,0,sp); int devnull=open("/dev/null",O_WRONLY);
  uint8_t d[64]; memset(d,0,sizeof d);
  Avtp_Ntscf_Init((Avtp_Ntscf_t*)d); Avtp_Ntscf_SetNtscfDataLength((Avtp_Ntscf_t*)d, 24);
  Avtp_Can_t* c=(Avtp_Can_t*)(d+12); Avtp_Can_Init(c);
  if(argc>1 && argv[1][0]=='z'){ Avtp_Can_SetAcfMsgLength(c,0); signal(SIGALRM,on_alarm); alarm(2);}   /* zero-length message */
  else { Avtp_Can_SetAcfMsgLength(c, 60); Avtp_Can_SetPad(c,0);}                      /* 8-bit payload length 240-16 = 224 > 8 */
  send(sp[1], d, 36, 0);
  use_udp=0; can_variant=AVTP_CAN_CLASSIC;
  int r=new_packet(sp[0], devnull); printf("new_packet returned %d\n", r); return 0; }
