#define main listener_main
#include "../../../repo/examples/cvf/cvf-listener.c"
#undef main
#include <sys/socket.h>
int main(void){
  int sp[2]; socketpair(AF_UNIX,SOCK_DGRAM,0,sp); int tfd=timerfd_create(CLOCK_REALTIME,0);
  uint8_t d[64]; memset(d,0,sizeof d); Avtp_Cvf_t* c=(Avtp_Cvf_t*)d;
  Avtp_Cvf_Init(c); Avtp_Cvf_SetTv(c,1); Avtp_Cvf_SetStreamId(c, STREAM_ID); Avtp_Cvf_SetFormatSubtype(c, AVTP_CVF_FORMAT_SUBTYPE_H264);
  Avtp_Cvf_SetStreamDataLength(c, 3);      /* 3 - 4 wraps to 65535 */
  send(sp[1], d, 40, 0);
  int r=new_packet(sp[0], tfd); printf("new_packet returned %d\n", r); return 0; }
