/* Concrete replay of the C19 findings against the real talker/listener sources (documentation, not a check).
 * Build: sh build.sh ; run: ./tunnel_replay */
#include <stdio.h>
#include <string.h>
#include <unistd.h>
#include <sys/socket.h>
#include <linux/can.h>
#include "acf-can/acf-can-common.h"
void t_config(int, int, int); int t_init(uint8_t *); int t_prepare(uint8_t *, frame_t); int t_update(uint8_t *, uint64_t);
void l_config(int, int); int l_new_packet(int, int);
static int fails;
static void one(int fd_variant, int n, frame_t *in)
{
    uint8_t pdu[1500]; int net[2], can[2]; int len, cf;
    socketpair(AF_UNIX, SOCK_DGRAM, 0, net); socketpair(AF_UNIX, SOCK_DGRAM, 0, can);
    t_config(0, 0, fd_variant); l_config(0, fd_variant);
    len = cf = t_init(pdu);
    for (int i = 0; i < n; i++) len += t_prepare(pdu + len, in[i]);
    t_update(pdu, len);
    send(net[1], pdu, len, 0);
    l_new_packet(net[0], can[1]);
    for (int i = 0; i < n; i++) {
        frame_t out; memset(&out, 0, sizeof out);
        ssize_t r = recv(can[0], &out, sizeof out, MSG_DONTWAIT);
        if (r <= 0) { printf("  frame %d: nothing written\n", i); fails++; continue; }
        if (out.cc.can_id != in[i].cc.can_id) { printf("  frame %d: can_id in %08x out %08x\n", i, in[i].cc.can_id, out.cc.can_id); fails++; }
        if (fd_variant && out.fd.flags != in[i].fd.flags) { printf("  frame %d: fd flags in %02x out %02x\n", i, in[i].fd.flags, out.fd.flags); fails++; }
    }
    close(net[0]); close(net[1]); close(can[0]); close(can[1]);
}
int main(void)
{
    frame_t f[2]; memset(f, 0, sizeof f);
    printf("classic, remote frame id 0x123:\n"); f[0].cc.can_id = 0x123 | CAN_RTR_FLAG; f[0].cc.len = 0; one(0, 1, f);
    printf("classic, extended frame id 0x45:\n"); f[0].cc.can_id = 0x45 | CAN_EFF_FLAG; f[0].cc.len = 2; one(0, 1, f);
    printf("FD, ESI set, FDF clear:\n"); f[0].fd.can_id = 0x10; f[0].fd.len = 12; f[0].fd.flags = CANFD_ESI; one(1, 1, f);
    printf("FD, two frames, BRS only on the first:\n"); f[0].fd.flags = CANFD_BRS | CANFD_FDF; f[1].fd.can_id = 0x11; f[1].fd.len = 4; f[1].fd.flags = CANFD_FDF; one(1, 2, f);
    printf("%d mismatch(es)\n", fails);
    return fails ? 1 : 0;
}
