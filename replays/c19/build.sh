#!/bin/sh
CF="-I /repo/include -I /repo/examples -w"
cc $CF -c talker_part.c -o talker_part.o && cc $CF -c listener_part.c -o listener_part.o && \
cc $CF tunnel_replay.c talker_part.o listener_part.o /repo/examples/acf-can/acf-can-common.c /repo/examples/common/common.c \
   /repo/src/avtp/Utils.c /repo/src/avtp/Udp.c /repo/src/avtp/CommonHeader.c /repo/src/avtp/acf/Can.c /repo/src/avtp/acf/Tscf.c \
   /repo/src/avtp/acf/Ntscf.c /repo/src/avtp/acf/AcfCommon.c -o tunnel_replay
