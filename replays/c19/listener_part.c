#define main listener_main
#include "acf-can/acf-can-listener.c"
#undef main
void l_config(int udp, int fd) { use_udp = udp; can_variant = fd ? AVTP_CAN_FD : AVTP_CAN_CLASSIC; }
int l_new_packet(int sk, int can) { return new_packet(sk, can); }
