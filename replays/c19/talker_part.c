#define main talker_main
#include "acf-can/acf-can-talker.c"
#undef main
void t_config(int tscf, int udp, int fd) { use_tscf = tscf; use_udp = udp; can_variant = fd ? AVTP_CAN_FD : AVTP_CAN_CLASSIC; }
int t_init(uint8_t *cf) { return init_cf_pdu(cf); }
int t_prepare(uint8_t *acf, frame_t f) { return prepare_acf_packet(acf, f); }
int t_update(uint8_t *cf, uint64_t len) { return update_cf_length(cf, len); }
