/* Positive control for the address-to-value rule of C15: the first group must be
 * flagged on every run, the second group must stay silent (a rule that expects
 * zero findings must prove it can see one, and that it knows the idioms). */
#include <stdint.h>
#include <stddef.h>
#include <string.h>

/* ---- must be flagged ---- */
int fx_pad_from_address(uint8_t *pdu, uint16_t len)
{
    uintptr_t end = (uintptr_t)(pdu + len);
    uint8_t pad = (uint8_t)((4 - end % 4) % 4);
    memset(pdu + len, 0, pad);
    return len + pad;
}
uint32_t fx_hash_of_pointer(const uint8_t *pdu) { return (uint32_t)((uintptr_t)pdu >> 4); }
void fx_store_low_bits(uint8_t *pdu) { pdu[0] = (uint8_t)((uintptr_t)pdu & 3); }
uint8_t *fx_round_down(uint8_t *pdu) { return (uint8_t *)((uintptr_t)pdu & ~(uintptr_t)3); }
uint32_t fx_pun(const uint8_t *pdu)
{
    union { const uint8_t *p; uintptr_t u; } x;
    x.p = pdu;
    return (uint32_t)x.u;
}
static uintptr_t fx_addr(const void *p) { return (uintptr_t)p; }
uint8_t fx_index_from_helper(const uint8_t *pdu) { return pdu[fx_addr(pdu) & 1]; }

/* ---- must stay silent ---- */
uint32_t fx_guarded_fast_path(const uint8_t *pdu)
{
    uint32_t v;
    if ((fx_addr(pdu) & 3) == 0)
        v = *(const uint32_t *)(const void *)pdu;
    else
        memcpy(&v, pdu, 4);
    return v;
}
size_t fx_pointer_difference(const uint8_t *pdu, const uint8_t *end) { return (size_t)(end - pdu); }
uint8_t fx_round_trip(const uint8_t *pdu)
{
    const uint8_t *q = (const uint8_t *)((uintptr_t)pdu + 2);
    return *q;
}
uint8_t fx_local_address(void)
{
    uint8_t tmp[8] = {0};
    return tmp[(uintptr_t)tmp & 0];
}
