/* Engine self-test unit: compiled to IR (never run) by tools/selfcheck.py; the
 * expected closed forms are written by hand in that script. */
#include <stdint.h>
#include <string.h>

uint32_t st_bswap(uint32_t x)
{
    return ((x & 0xff000000u) >> 24) | ((x & 0x00ff0000u) >> 8) | ((x & 0x0000ff00u) << 8) | ((x & 0xffu) << 24);
}

uint8_t st_load(uint8_t *p) { return p[3]; }

void st_rmw(uint8_t *p, uint8_t v) { p[1] = (uint8_t)((p[1] & 0xF0) | (v & 0x0F)); }

/* same function as st_rmw, written with the xor-merge idiom */
void st_rmw_xor(uint8_t *p, uint8_t v) { p[1] = (uint8_t)(p[1] ^ ((p[1] ^ v) & 0x0F)); }

uint32_t st_loop_be(uint8_t *p)
{
    uint32_t r = 0;
    for (int i = 0; i < 4; i++) r = (r << 8) | p[i];
    return r;
}

uint32_t st_typed_load(uint8_t *p) { return *(uint32_t *)p; }

void st_copy(uint8_t *d, const uint8_t *s) { memcpy(d + 2, s, 3); memset(d + 5, 0, 2); }

int st_cmp(uint32_t id) { return id > 0x7ff ? 1 : 0; }
int st_cmp2(uint32_t id) { return (id >> 11) != 0; }

int st_guard(uint8_t *p, uint32_t f) { if (p != 0 && f < 12) return p[0]; return 0; }

static uint8_t st_scratch[4];
uint8_t st_static(uint8_t v) { st_scratch[0] = v; return st_scratch[1]; }
