/* Positive control for the C16 rule: every construct below must be flagged on
 * every run (a rule that expects zero findings must prove it can see one). */
#include <stdint.h>
#include <stdlib.h>

static uint8_t scratch[4];                 /* writable static storage      */
static const uint8_t table[4] = {1, 2, 3, 4};
uint32_t call_counter;                     /* writable global              */

uint8_t fx_uses_scratch(const uint8_t *pdu)
{
    static int initialised;                /* function-local static        */
    if (!initialised) { scratch[0] = pdu[0]; initialised = 1; }
    call_counter++;
    return scratch[0] + table[1];
}

int fx_calls_hidden_state(void) { return rand(); }   /* non-whitelisted callee */
